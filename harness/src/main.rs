//! `mc` - bounded exhaustive exploration of rust-simplicity against reference oracles.
//!
//!   mc <Cxx> --tier quick|thorough [--replay <file>]     master
//!   mc --worker <Cxx> --tier T --shard i/n ...            worker (spawned by the master)

mod engine;
mod props;
mod reference;
mod space;

use engine::{MasterArgs, Tier, WorkerArgs};

#[global_allocator]
static ALLOC: engine::alloc::Meter = engine::alloc::Meter;

fn usage() -> ! {
    eprintln!("usage: mc <C01..C20> --tier quick|thorough [--replay <file>] [--jobs N]");
    std::process::exit(2)
}

fn main() {
    let args: Vec<String> = std::env::args().skip(1).collect();
    if args.is_empty() {
        usage();
    }
    if args[0] == "--cold-body" {
        let n = |i: usize, d: usize| args.get(i).and_then(|s| s.parse().ok()).unwrap_or(d);
        props::c20::cold_body(n(1, 1), n(2, 0));
        return;
    }
    if args[0] == "--race-body" {
        let n = |i: usize, d: usize| args.get(i).and_then(|s| s.parse().ok()).unwrap_or(d);
        props::c20::race_body(n(1, 0), n(2, 1));
        return;
    }
    let mut worker = false;
    let mut id: Option<String> = None;
    let mut tier = match std::env::var("VERIF_TIER").as_deref() {
        Ok("thorough") => Tier::Thorough,
        _ => Tier::Quick,
    };
    let mut seed: u64 = std::env::var("VERIF_SEED")
        .ok()
        .and_then(|s| s.parse().ok())
        .unwrap_or(0);
    let mut shard = (0usize, 1usize);
    let mut skip = vec![];
    let mut only = None;
    let mut trace = false;
    let mut stop_at = None;
    let mut replay = None;
    let mut jobs = std::thread::available_parallelism().map(|n| n.get()).unwrap_or(8).min(16);
    let mut i = 0;
    while i < args.len() {
        match args[i].as_str() {
            "--worker" => {
                worker = true;
                i += 1;
                id = args.get(i).cloned();
            }
            "--tier" => {
                i += 1;
                tier = match args.get(i).map(|s| s.as_str()) {
                    Some("quick") => Tier::Quick,
                    Some("thorough") => Tier::Thorough,
                    _ => usage(),
                };
            }
            "--seed" => {
                i += 1;
                seed = args.get(i).and_then(|s| s.parse().ok()).unwrap_or(0);
            }
            "--shard" => {
                i += 1;
                let s = args.get(i).cloned().unwrap_or_default();
                let mut it = s.split('/');
                shard = (
                    it.next().and_then(|x| x.parse().ok()).unwrap_or(0),
                    it.next().and_then(|x| x.parse().ok()).unwrap_or(1),
                );
            }
            "--skip" => {
                i += 1;
                skip = args
                    .get(i)
                    .map(|s| s.split(',').filter_map(|x| x.parse().ok()).collect())
                    .unwrap_or_default();
            }
            "--only" => {
                only = Some((
                    args.get(i + 1).cloned().unwrap_or_default(),
                    args.get(i + 2).cloned().unwrap_or_default(),
                ));
                i += 2;
            }
            "--trace" => trace = true,
            "--stop-at" => {
                i += 1;
                stop_at = args.get(i).and_then(|s| s.parse().ok());
            }
            "--replay" => {
                i += 1;
                replay = args.get(i).cloned();
            }
            "--jobs" => {
                i += 1;
                jobs = args.get(i).and_then(|s| s.parse().ok()).unwrap_or(jobs);
            }
            s if id.is_none() && !s.starts_with('-') => id = Some(s.to_string()),
            _ => usage(),
        }
        i += 1;
    }
    let id = id.unwrap_or_else(|| usage());
    let p = match props::find(&id) {
        Some(p) => p,
        None => {
            eprintln!("unknown property {id}");
            std::process::exit(2)
        }
    };
    if worker {
        let budget_ms = tier.pick(p.budget_ms.0, p.budget_ms.1);
        engine::worker_main(
            p,
            WorkerArgs {
                tier,
                seed,
                shard: shard.0,
                nshards: shard.1,
                only,
                skip,
                trace,
                stop_at,
                budget_ms,
            },
        );
    } else {
        engine::master_main(p, MasterArgs { tier, seed, replay, jobs });
    }
}
