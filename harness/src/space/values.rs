//! V(k): types x values x production histories.

use crate::reference::bits::bits_to_bytes;
use crate::reference::tyval::*;
use simplicity::{BitIter, Value};
use std::rc::Rc;

/// One way of producing a library value that should denote `v : t`.
#[derive(Clone, Debug, PartialEq, Eq, Hash, PartialOrd, Ord)]
pub enum Hist {
    /// constructor tree
    Ctor,
    /// Value::from_compact_bits on the compact encoding followed by garbage
    Compact,
    /// Value::from_padded_bits, padding positions filled with the given bit
    Padded(bool),
    /// right component of a product decoded from a dirty buffer, at bit offset r
    SubProdR(usize),
    /// left component of a product whose tail is dirty
    SubProdL,
    /// payload of a left / right injection inside a dirty, wider sum
    SubSumL,
    SubSumR,
    /// pruned from the type obtained by widening every unit leaf to a bit
    Pruned,
    /// Value::zero (only for the zero value)
    Zero,
    /// decoded through compact bits after being wrapped in an option: Value::some(x).as_right()
    SomeInner,
    /// a sum value whose payload is a sub-value cut out of a parent at the given bit offset (the
    /// parent's other bits all equal the given fill) and wrapped again with Value::left / right:
    /// the constructors reuse the payload's buffer when the bit in front of it already is the tag
    Rewrap(usize, bool),
    /// a product re-assembled by Value::product from two components that were each cut out of a
    /// parent at the given bit offset, all other bits of the parents being the given fill (the
    /// bits behind a component's end belong to somebody else and must not leak into the product)
    Reproduct(usize, bool),
    /// output of the Bit Machine: the value is written into a frame that reuses a region filled
    /// with ones and is copied out by `iden`, so sum padding holds arbitrary bits
    MachineOutput,
}

pub fn all_hists() -> Vec<Hist> {
    let mut v = vec![Hist::Ctor, Hist::Compact, Hist::Padded(false), Hist::Padded(true)];
    for r in [1, 2, 3, 4, 5, 6, 7, 8, 9, 16] {
        v.push(Hist::SubProdR(r));
    }
    for off in [3, 8, 16] {
        for fill in [false, true] {
            v.push(Hist::Rewrap(off, fill));
        }
    }
    for off in [0, 3, 8] {
        for fill in [false, true] {
            v.push(Hist::Reproduct(off, fill));
        }
    }
    v.extend([Hist::SubProdL, Hist::SubSumL, Hist::SubSumR, Hist::Pruned, Hist::Zero, Hist::SomeInner, Hist::MachineOutput]);
    v
}

fn bits_type(r: usize) -> Rc<RT> {
    // a type of exactly r bits without padding: 2 x (2 x ...)
    let mut t = RT::bit();
    for _ in 1..r {
        t = RT::prod(&RT::bit(), &t);
    }
    t
}

fn widen(t: &RT) -> Rc<RT> {
    match t {
        RT::Unit => RT::bit(),
        RT::Sum(a, b) => RT::sum(&widen(a), &widen(b)),
        RT::Prod(a, b) => RT::prod(&widen(a), &widen(b)),
    }
}
fn widen_val(v: &RV) -> Rc<RV> {
    match v {
        RV::Unit => RV::bit(false),
        RV::L(a) => RV::l(&widen_val(a)),
        RV::R(a) => RV::r(&widen_val(a)),
        RV::Pair(a, b) => RV::pair(&widen_val(a), &widen_val(b)),
    }
}

fn decode_padded(t: &RT, bits: &[bool]) -> Result<Value, String> {
    let bytes = bits_to_bytes(bits);
    let mut it = BitIter::from(bytes.as_slice());
    Value::from_padded_bits(&mut it, &t.to_final()).map_err(|e| format!("from_padded_bits failed: {e}"))
}

/// Produce the library value for (t, v) along history h. Ok(None) if the history does not apply,
/// Err if a library call on the way refused although it must succeed.
pub fn produce(t: &Rc<RT>, v: &Rc<RV>, h: &Hist) -> Result<Option<Value>, String> {
    match h {
        Hist::Ctor => Ok(Some(v.to_value(t))),
        Hist::Compact => {
            let mut bits = v.compact();
            bits.extend([true; 11]);
            let bytes = bits_to_bytes(&bits);
            let mut it = BitIter::from(bytes.as_slice());
            Value::from_compact_bits(&mut it, &t.to_final()).map(Some).map_err(|e| format!("from_compact_bits failed: {e}"))
        }
        Hist::Padded(fill) => {
            if *fill && !t.has_padding() {
                return Ok(None);
            }
            let mut bits = v.padded_fill(t, *fill);
            bits.extend([true; 11]);
            decode_padded(t, &bits).map(Some)
        }
        Hist::SubProdR(r) => {
            if t.width() == 0 {
                return Ok(None);
            }
            let big = RT::prod(&bits_type(*r), &RT::prod(t, &RT::bit()));
            let mut bits = vec![true; *r];
            bits.extend(v.padded_fill(t, true));
            bits.push(true);
            let b = decode_padded(&big, &bits)?;
            let (_, rest) = b.as_product().ok_or("as_product None on a product")?;
            let (x, _) = rest.as_product().ok_or("as_product None on a product")?;
            Ok(Some(x.to_value()))
        }
        Hist::SubProdL => {
            let big = RT::prod(t, &RT::word(3));
            let mut bits = v.padded_fill(t, true);
            bits.extend([true; 8]);
            let b = decode_padded(&big, &bits)?;
            let (x, _) = b.as_product().ok_or("as_product None on a product")?;
            Ok(Some(x.to_value()))
        }
        Hist::SubSumL => {
            // t + (t x 2^8): left payload sits behind 8 bits of (dirty) padding
            let wide = RT::prod(t, &RT::word(3));
            let big = RT::sum(t, &wide);
            let bv = RV::l(v);
            let bits = bv.padded_fill(&big, true);
            let b = decode_padded(&big, &bits)?;
            Ok(Some(b.as_left().ok_or("as_left None on a left value")?.to_value()))
        }
        Hist::SubSumR => {
            let wide = RT::prod(t, &RT::word(2));
            let big = RT::sum(&wide, t);
            let bv = RV::r(v);
            let bits = bv.padded_fill(&big, true);
            let b = decode_padded(&big, &bits)?;
            Ok(Some(b.as_right().ok_or("as_right None on a right value")?.to_value()))
        }
        Hist::Pruned => {
            let wt = widen(t);
            let wv = widen_val(v);
            // built from a dirty padded decode so that the source buffer is dirty as well
            let bits = wv.padded_fill(&wt, true);
            let b = decode_padded(&wt, &bits)?;
            b.prune(&t.to_final()).map(Some).ok_or_else(|| "prune to a smaller type returned None".to_string())
        }
        Hist::Zero => {
            if **v == *RV::zero(t) {
                Ok(Some(Value::zero(&t.to_final())))
            } else {
                Ok(None)
            }
        }
        Hist::MachineOutput => {
            use crate::reference::eval::{Term, Tm};
            use crate::space::terms::{place, Builder, Place};
            let one = RT::unit();
            // scribe-like term built from injections and pairs only, so that padding is skipped, not written
            fn scribe(v: &RV, t: &Rc<RT>, src: &Rc<RT>) -> Rc<Term> {
                match (v, &**t) {
                    (RV::Unit, _) => Term::new(Tm::Unit, src, t),
                    (RV::L(a), RT::Sum(ta, _)) => Term::new(Tm::InjL(scribe(a, ta, src)), src, t),
                    (RV::R(b), RT::Sum(_, tb)) => Term::new(Tm::InjR(scribe(b, tb, src)), src, t),
                    (RV::Pair(a, b), RT::Prod(ta, tb)) => Term::new(Tm::Pair(scribe(a, ta, src), scribe(b, tb, src)), src, t),
                    _ => panic!("value not of type"),
                }
            }
            let term = place(&scribe(v, t, &one), Place::DirtyOutput);
            let prog = Builder::new().redeem(&term)?;
            let mut mac = simplicity::BitMachine::for_program(&prog).map_err(|e| e.to_string())?;
            let out = mac.exec(&prog, &simplicity::jet::CoreEnv::new()).map_err(|e| format!("machine failed: {e}"))?;
            Ok(Some(out))
        }
        Hist::Rewrap(off, fill) => {
            let (payload, pt, other, left) = match (&**v, &**t) {
                (RV::L(x), RT::Sum(a, b)) => (x.clone(), a.clone(), b.clone(), true),
                (RV::R(x), RT::Sum(a, b)) => (x.clone(), b.clone(), a.clone(), false),
                _ => return Ok(None),
            };
            // parent: off bits, the payload, one more bit; everything but the payload's data is `fill`
            let big = RT::prod(&bits_type(*off), &RT::prod(&pt, &RT::bit()));
            let mut bits = vec![*fill; *off];
            bits.extend(payload.padded_fill(&pt, *fill));
            bits.push(*fill);
            let b = decode_padded(&big, &bits)?;
            let (_, rest) = b.as_product().ok_or("as_product None on a product")?;
            let (x, _) = rest.as_product().ok_or("as_product None on a product")?;
            let sub = x.to_value();
            Ok(Some(if left { Value::left(sub, other.to_final()) } else { Value::right(other.to_final(), sub) }))
        }
        Hist::Reproduct(off, fill) => {
            let (xa, xb, ta, tb) = match (&**v, &**t) {
                (RV::Pair(a, b), RT::Prod(ta, tb)) => (a.clone(), b.clone(), ta.clone(), tb.clone()),
                _ => return Ok(None),
            };
            // a component of type ct holding x, cut out of (off bits, (x, 11 more bits)), everything else `fill`
            let cut = |x: &Rc<RV>, ct: &Rc<RT>| -> Result<Value, String> {
                let tail = bits_type(11);
                let inner = RT::prod(ct, &tail);
                let (big, bits) = if *off == 0 {
                    let mut bits = x.padded_fill(ct, *fill);
                    bits.extend(vec![*fill; 11]);
                    (inner.clone(), bits)
                } else {
                    let mut bits = vec![*fill; *off];
                    bits.extend(x.padded_fill(ct, *fill));
                    bits.extend(vec![*fill; 11]);
                    (RT::prod(&bits_type(*off), &inner), bits)
                };
                let b = decode_padded(&big, &bits)?;
                let rest = if *off == 0 { b.as_ref() } else { b.as_product().ok_or("as_product None on a product")?.1 };
                let (c, _) = rest.as_product().ok_or("as_product None on a product")?;
                Ok(c.to_value())
            };
            Ok(Some(Value::product(cut(&xa, &ta)?, cut(&xb, &tb)?)))
        }
        Hist::SomeInner => {
            let s = Value::some(v.to_value(t));
            Ok(Some(s.as_right().ok_or("as_right None on Value::some")?.to_value()))
        }
    }
}
