//! U(n, Sigma): untyped DAG space in canonical post-order, and builders into the real
//! `ConstructNode` API.

use simplicity::jet::{Core, Elements, Jet};
use simplicity::node::{ConstructNode, CoreConstructible, DisconnectConstructible, WitnessConstructible};
use simplicity::types;
use simplicity::{Cmr, FailEntropy, Value, Word};
use std::sync::Arc;

#[derive(Clone, Copy, PartialEq, Eq, Hash, Debug, PartialOrd, Ord)]
pub enum Sym {
    Iden,
    Unit,
    Witness,
    /// fail with entropy [e; 64]
    Fail(u8),
    /// word of 2^n bits, all bits taken from the low bits of the value (MSB first)
    Word(u8, u64),
    /// jet: index into the family's ALL table
    Jet(u16),
    InjL,
    InjR,
    Take,
    Drop,
    /// assertl child, hidden cmr = [h; 32]
    AssertL(u8),
    AssertR(u8),
    /// disconnect without a right branch
    Disc1,
    Comp,
    Case,
    Pair,
    /// disconnect with right branch
    Disc2,
}

impl Sym {
    pub fn arity(self) -> usize {
        match self {
            Sym::Iden | Sym::Unit | Sym::Witness | Sym::Fail(_) | Sym::Word(..) | Sym::Jet(_) => 0,
            Sym::InjL | Sym::InjR | Sym::Take | Sym::Drop | Sym::AssertL(_) | Sym::AssertR(_) | Sym::Disc1 => 1,
            Sym::Comp | Sym::Case | Sym::Pair | Sym::Disc2 => 2,
        }
    }
}

#[derive(Clone, Copy, PartialEq, Eq, Hash, Debug, PartialOrd, Ord)]
pub struct Node {
    pub sym: Sym,
    pub l: u8,
    pub r: u8,
}

pub type Dag = Vec<Node>;

#[derive(Clone, Copy, PartialEq, Eq, Debug)]
pub enum Fam {
    Core,
    Elements,
}

impl Fam {
    pub fn jet(self, idx: u16) -> Box<dyn Jet> {
        match self {
            Fam::Core => Box::new(Core::ALL[idx as usize]),
            Fam::Elements => Box::new(Elements::ALL[idx as usize]),
        }
    }
    pub fn n_jets(self) -> usize {
        match self {
            Fam::Core => Core::ALL.len(),
            Fam::Elements => Elements::ALL.len(),
        }
    }
    pub fn find(self, name: &str) -> u16 {
        use std::collections::HashMap;
        use std::sync::OnceLock;
        static CORE: OnceLock<HashMap<String, u16>> = OnceLock::new();
        static ELEMENTS: OnceLock<HashMap<String, u16>> = OnceLock::new();
        let cell = match self {
            Fam::Core => &CORE,
            Fam::Elements => &ELEMENTS,
        };
        let map = cell.get_or_init(|| (0..self.n_jets() as u16).map(|i| (self.jet(i).to_string(), i)).collect());
        *map.get(name).unwrap_or_else(|| panic!("no jet {name}"))
    }
    pub fn name(self) -> &'static str {
        match self {
            Fam::Core => "core",
            Fam::Elements => "elements",
        }
    }
}

pub fn render_sym(s: Sym, fam: Fam) -> String {
    match s {
        Sym::Iden => "iden".into(),
        Sym::Unit => "unit".into(),
        Sym::Witness => "witness".into(),
        Sym::Fail(e) => format!("fail#{e}"),
        Sym::Word(n, v) => format!("word{}:{:x}", 1u32 << n, v),
        Sym::Jet(j) => format!("jet:{}", fam.jet(j)),
        Sym::InjL => "injl".into(),
        Sym::InjR => "injr".into(),
        Sym::Take => "take".into(),
        Sym::Drop => "drop".into(),
        Sym::AssertL(h) => format!("assertl#{h}"),
        Sym::AssertR(h) => format!("assertr#{h}"),
        Sym::Disc1 => "disconnect1".into(),
        Sym::Comp => "comp".into(),
        Sym::Case => "case".into(),
        Sym::Pair => "pair".into(),
        Sym::Disc2 => "disconnect".into(),
    }
}

pub fn render(dag: &[Node], fam: Fam) -> String {
    let mut s = format!("{}:", fam.name());
    for (i, n) in dag.iter().enumerate() {
        if i > 0 {
            s.push(' ');
        }
        match n.sym.arity() {
            0 => s.push_str(&format!("{i}={}", render_sym(n.sym, fam))),
            1 => s.push_str(&format!("{i}={}({})", render_sym(n.sym, fam), n.l)),
            _ => s.push_str(&format!("{i}={}({},{})", render_sym(n.sym, fam), n.l, n.r)),
        }
    }
    s
}

/// Sigma_core: 7 leaves, 7 unary, 4 binary (the default jet is `verify`).
pub fn sigma_core(fam: Fam) -> Vec<Sym> {
    vec![
        Sym::Iden,
        Sym::Unit,
        Sym::Witness,
        Sym::Fail(0),
        Sym::Word(0, 0),
        Sym::Word(0, 1),
        Sym::Jet(fam.find("verify")),
        Sym::InjL,
        Sym::InjR,
        Sym::Take,
        Sym::Drop,
        Sym::AssertL(7),
        Sym::AssertR(7),
        Sym::Disc1,
        Sym::Comp,
        Sym::Case,
        Sym::Pair,
        Sym::Disc2,
    ]
}

/// Is the node list in canonical post-order (left-first, first occurrence), with every node
/// reachable from the root (= last node)?
pub fn is_canonical(dag: &[Node]) -> bool {
    let n = dag.len();
    let mut seen = [false; 16];
    let mut next = 0usize;
    // iterative post-order
    let mut stack: [(u8, u8); 40] = [(0, 0); 40];
    let mut sp = 0;
    stack[sp] = ((n - 1) as u8, 0);
    sp += 1;
    while sp > 0 {
        let (i, st) = stack[sp - 1];
        let node = dag[i as usize];
        let ar = node.sym.arity();
        if st == 0 && seen[i as usize] {
            sp -= 1;
            continue;
        }
        if (st as usize) < ar {
            stack[sp - 1].1 += 1;
            let c = if st == 0 { node.l } else { node.r };
            if !seen[c as usize] {
                stack[sp] = (c, 0);
                sp += 1;
            }
        } else {
            // emit
            if seen[i as usize] {
                sp -= 1;
                continue;
            }
            if i as usize != next {
                return false;
            }
            seen[i as usize] = true;
            next += 1;
            sp -= 1;
        }
    }
    next == n
}

/// Enumerate all canonical DAGs with exactly n nodes over the alphabet. `mine` is consulted once
/// per prefix of `shard_depth` nodes; a prefix that is not mine is skipped with its whole subtree.
pub fn enum_dags(n: usize, alpha: &[Sym], shard_depth: usize, mine: &mut dyn FnMut() -> bool, f: &mut dyn FnMut(&[Node])) {
    fn rec(i: usize, n: usize, alpha: &[Sym], cur: &mut Vec<Node>, sd: usize, mine: &mut dyn FnMut() -> bool, f: &mut dyn FnMut(&[Node])) {
        if i == sd.min(n) && !mine() {
            return;
        }
        if i == n {
            if is_canonical(cur) {
                f(cur);
            }
            return;
        }
        for &sym in alpha {
            match sym.arity() {
                0 => {
                    cur.push(Node { sym, l: 0, r: 0 });
                    rec(i + 1, n, alpha, cur, sd, mine, f);
                    cur.pop();
                }
                1 => {
                    for l in 0..i {
                        cur.push(Node { sym, l: l as u8, r: 0 });
                        rec(i + 1, n, alpha, cur, sd, mine, f);
                        cur.pop();
                    }
                }
                _ => {
                    for l in 0..i {
                        for r in 0..i {
                            cur.push(Node { sym, l: l as u8, r: r as u8 });
                            rec(i + 1, n, alpha, cur, sd, mine, f);
                            cur.pop();
                        }
                    }
                }
            }
        }
    }
    let mut cur = Vec::with_capacity(n);
    rec(0, n, alpha, &mut cur, shard_depth, mine, f);
}

pub fn hidden_cmr(h: u8) -> Cmr {
    Cmr::from_byte_array([h; 32])
}

pub fn word_of(n: u8, v: u64) -> Word {
    match n {
        0 => Word::u1((v & 1) as u8),
        1 => Word::u2((v & 3) as u8),
        2 => Word::u4((v & 15) as u8),
        3 => Word::u8(v as u8),
        4 => Word::u16(v as u16),
        5 => Word::u32(v as u32),
        6 => Word::u64(v),
        _ => panic!("word too wide for the alphabet"),
    }
}

pub type CNode<'b> = Arc<ConstructNode<'b>>;

/// Build one node from already built children.
pub fn build_node<'b>(ctx: &types::Context<'b>, node: Node, fam: Fam, get: &dyn Fn(u8) -> CNode<'b>, wit: Option<Value>) -> Result<CNode<'b>, types::Error> {
    Ok(match node.sym {
        Sym::Iden => CNode::iden(ctx),
        Sym::Unit => CNode::unit(ctx),
        Sym::Witness => CNode::witness(ctx, wit),
        Sym::Fail(e) => CNode::fail(ctx, FailEntropy::from_byte_array([e; 64])),
        Sym::Word(n, v) => CNode::const_word(ctx, word_of(n, v)),
        Sym::Jet(j) => CNode::jet(ctx, fam.jet(j).as_ref()),
        Sym::InjL => CNode::injl(&get(node.l)),
        Sym::InjR => CNode::injr(&get(node.l)),
        Sym::Take => CNode::take(&get(node.l)),
        Sym::Drop => CNode::drop_(&get(node.l)),
        Sym::AssertL(h) => CNode::assertl(&get(node.l), hidden_cmr(h))?,
        Sym::AssertR(h) => CNode::assertr(hidden_cmr(h), &get(node.l))?,
        Sym::Disc1 => CNode::disconnect(&get(node.l), &None)?,
        Sym::Comp => CNode::comp(&get(node.l), &get(node.r))?,
        Sym::Case => CNode::case(&get(node.l), &get(node.r))?,
        Sym::Pair => CNode::pair(&get(node.l), &get(node.r))?,
        Sym::Disc2 => CNode::disconnect(&get(node.l), &Some(get(node.r)))?,
    })
}

/// Build the whole DAG in index order. Err carries the index of the node whose construction failed.
pub fn build<'b>(ctx: &types::Context<'b>, dag: &[Node], fam: Fam, wit: &dyn Fn(usize) -> Option<Value>) -> Result<Vec<CNode<'b>>, (usize, types::Error)> {
    let order: Vec<usize> = (0..dag.len()).collect();
    build_in_order(ctx, dag, fam, &order, wit)
}

pub fn build_in_order<'b>(ctx: &types::Context<'b>, dag: &[Node], fam: Fam, order: &[usize], wit: &dyn Fn(usize) -> Option<Value>) -> Result<Vec<CNode<'b>>, (usize, types::Error)> {
    let mut built: Vec<Option<CNode<'b>>> = vec![None; dag.len()];
    for &i in order {
        let node = {
            let get = |c: u8| built[c as usize].clone().expect("child built before parent");
            build_node(ctx, dag[i], fam, &get, wit(i)).map_err(|e| (i, e))?
        };
        built[i] = Some(node);
    }
    Ok(built.into_iter().map(|b| b.unwrap()).collect())
}

/// Like `build_in_order`, but a rejected constructor call is repeated once in the same context; if the
/// repetition is accepted, construction goes on. Returns the nodes and whether any call needed a retry.
/// (A caller who ignores an error and tries again must not end up with an accepted ill-typed program.)
pub fn build_in_order_retrying<'b>(ctx: &types::Context<'b>, dag: &[Node], fam: Fam, order: &[usize]) -> Result<(Vec<CNode<'b>>, bool), (usize, types::Error)> {
    let mut built: Vec<Option<CNode<'b>>> = vec![None; dag.len()];
    let mut retried = false;
    for &i in order {
        let node = {
            let get = |c: u8| built[c as usize].clone().expect("child built before parent");
            match build_node(ctx, dag[i], fam, &get, None) {
                Ok(n) => n,
                Err(_) => {
                    retried = true;
                    build_node(ctx, dag[i], fam, &get, None).map_err(|e| (i, e))?
                }
            }
        };
        built[i] = Some(node);
    }
    Ok((built.into_iter().map(|b| b.unwrap()).collect(), retried))
}

/// All linear extensions of the dependency order (children before parents).
pub fn linear_extensions(dag: &[Node]) -> Vec<Vec<usize>> {
    let n = dag.len();
    let mut res = vec![];
    fn rec(dag: &[Node], done: &mut Vec<bool>, cur: &mut Vec<usize>, res: &mut Vec<Vec<usize>>) {
        let n = dag.len();
        if cur.len() == n {
            res.push(cur.clone());
            return;
        }
        for i in 0..n {
            if done[i] {
                continue;
            }
            let nd = dag[i];
            let ok = match nd.sym.arity() {
                0 => true,
                1 => done[nd.l as usize],
                _ => done[nd.l as usize] && done[nd.r as usize],
            };
            if ok {
                done[i] = true;
                cur.push(i);
                rec(dag, done, cur, res);
                cur.pop();
                done[i] = false;
            }
        }
    }
    rec(dag, &mut vec![false; n], &mut vec![], &mut res);
    res
}

/// number of nodes that are referenced more than once (sharing) - used for non-triviality rules
pub fn shared_nodes(dag: &[Node]) -> usize {
    let mut refs = vec![0usize; dag.len()];
    for n in dag {
        match n.sym.arity() {
            0 => {}
            1 => refs[n.l as usize] += 1,
            _ => {
                refs[n.l as usize] += 1;
                refs[n.r as usize] += 1;
            }
        }
    }
    refs.iter().filter(|r| **r > 1).count()
}
