//! P: the program population - well-typed members of U(n <= N), with reference typing,
//! witness assignments, builders into Commit/Redeem nodes, and the reference
//! "maximal-sharing quotient" (the expected wire node list).

use crate::reference::codec::WNode;
use crate::reference::tyval::*;
use crate::reference::unify::{infer, Infer};
use crate::space::dag::*;
use simplicity::node::{CommitNode, RedeemNode};
use simplicity::types;
use std::collections::HashMap;
use std::rc::Rc;
use std::sync::Arc;

#[derive(Clone)]
pub struct Prog {
    pub dag: Dag,
    pub fam: Fam,
    /// reference principal arrows, as a program
    pub arrows: Vec<(Rc<RT>, Rc<RT>)>,
}

impl Prog {
    pub fn new(dag: &[Node], fam: Fam) -> Option<Prog> {
        match infer(dag, fam, true) {
            Infer::Ok(arrows) => Some(Prog { dag: dag.to_vec(), fam, arrows }),
            Infer::Err(..) => None,
        }
    }
    pub fn render(&self) -> String {
        render(&self.dag, self.fam)
    }
    pub fn has(&self, f: impl Fn(Sym) -> bool) -> bool {
        self.dag.iter().any(|n| f(n.sym))
    }
    pub fn witness_nodes(&self) -> Vec<usize> {
        (0..self.dag.len()).filter(|i| self.dag[*i].sym == Sym::Witness).collect()
    }
    /// does node i's sub-expression contain a witness or disconnect node?
    pub fn contains_wd(&self) -> Vec<bool> {
        let mut v = vec![false; self.dag.len()];
        for (i, n) in self.dag.iter().enumerate() {
            let own = matches!(n.sym, Sym::Witness | Sym::Disc1 | Sym::Disc2);
            v[i] = own
                || match n.sym.arity() {
                    0 => false,
                    1 => v[n.l as usize],
                    _ => v[n.l as usize] || v[n.r as usize],
                };
        }
        v
    }
    /// commitment-time precondition: sub-expressions containing witness/disconnect occur once
    pub fn commit_unique(&self) -> bool {
        let wd = self.contains_wd();
        let mut refs = vec![0usize; self.dag.len()];
        for n in &self.dag {
            match n.sym.arity() {
                0 => {}
                1 => refs[n.l as usize] += 1,
                _ => {
                    refs[n.l as usize] += 1;
                    refs[n.r as usize] += 1;
                }
            }
        }
        (0..self.dag.len()).all(|i| !wd[i] || refs[i] <= 1)
    }
    /// All witness assignments: every value for witness types of <= `bits` bits, corner values
    /// above; the product over witness nodes is capped at `cap` (returns complete?).
    pub fn witness_assignments(&self, bits: u128, cap: usize) -> (Vec<Vec<Option<Rc<RV>>>>, bool) {
        let ws = self.witness_nodes();
        let mut complete = true;
        let mut per: Vec<Vec<Rc<RV>>> = vec![];
        for &w in &ws {
            let t = &self.arrows[w].1;
            if t.width() <= bits && t.cardinality() <= 64 {
                per.push(values_of(t, 64).0);
            } else {
                complete = false;
                per.push(corner_values(t));
            }
        }
        let mut out: Vec<Vec<Option<Rc<RV>>>> = vec![vec![None; self.dag.len()]];
        for (k, &w) in ws.iter().enumerate() {
            let mut next = vec![];
            'o: for a in &out {
                for v in &per[k] {
                    if next.len() >= cap {
                        complete = false;
                        break 'o;
                    }
                    let mut b = a.clone();
                    b[w] = Some(v.clone());
                    next.push(b);
                }
            }
            out = next;
        }
        (out, complete)
    }
    /// (a panic inside the library is caught, recorded for the report and returned as an error)
    pub fn to_commit(&self) -> Result<Arc<CommitNode>, String> {
        let r = crate::engine::guard(|| {
            types::Context::with_context(|ctx| {
                let built = build(&ctx, &self.dag, self.fam, &|_| None).map_err(|(i, e)| format!("construction of node {i} failed: {e}"))?;
                built[self.dag.len() - 1].finalize_types().map_err(|e| format!("finalize_types failed: {e}"))
            })
        });
        match r {
            Ok(x) => x,
            Err(p) => {
                crate::engine::defer_panic(format!("{} (commitment form)", self.render()), p.clone());
                Err(format!("panic: {p}"))
            }
        }
    }
    pub fn to_redeem(&self, wit: &[Option<Rc<RV>>]) -> Result<Arc<RedeemNode>, String> {
        let r = crate::engine::guard(|| {
            types::Context::with_context(|ctx| {
                let built = build(&ctx, &self.dag, self.fam, &|i| wit[i].as_ref().map(|v| v.to_value(&self.arrows[i].1))).map_err(|(i, e)| format!("construction of node {i} failed: {e}"))?;
                built[self.dag.len() - 1].finalize_unpruned().map_err(|e| format!("finalize_unpruned failed: {e}"))
            })
        });
        match r {
            Ok(x) => x,
            Err(p) => {
                crate::engine::defer_panic(format!("{} redeem {}", self.render(), wit_str(wit)), p.clone());
                Err(format!("panic: {p}"))
            }
        }
    }
}

pub fn wit_str(w: &[Option<Rc<RV>>]) -> String {
    let v: Vec<String> = w.iter().enumerate().filter_map(|(i, x)| x.as_ref().map(|v| format!("{i}:{v}"))).collect();
    format!("wit[{}]", v.join(" "))
}

/// Expected wire node list and, per DAG node, its position in it.
pub struct Wire {
    pub nodes: Vec<WNode>,
    /// DAG index of the representative behind each wire position (None for hidden nodes)
    pub origin: Vec<Option<usize>>,
    /// wire position per reachable DAG node (for unshared duplicates: the last emission)
    pub pos: Vec<Option<usize>>,
}

#[derive(Clone, PartialEq, Eq, Hash)]
enum ImrKey {
    /// kind, child identity classes (without types), for witnesses: value bits and target type
    Node(String, Vec<usize>, Option<(Vec<bool>, Rc<RT>)>),
}

/// The maximal-sharing quotient of the program, computed structurally and mirroring what the
/// identity hash commits to: the *identity class* of a node is its kind, its children's identity
/// classes and (for witnesses) value bits and target type; two nodes are shared iff they have the
/// same identity class and the same own arrow. `redeem`: redemption-time rules (everything
/// shareable, disconnect binary); otherwise commitment-time rules (anything containing
/// witness/disconnect is never shared, disconnect is unary).
pub fn wire_list(p: &Prog, wit: &[Option<Rc<RV>>], redeem: bool) -> Wire {
    let wd = p.contains_wd();
    let mut class_of: Vec<Option<usize>> = vec![None; p.dag.len()];
    let mut imr_of: Vec<usize> = vec![0; p.dag.len()];
    let mut imr_classes: HashMap<ImrKey, usize> = HashMap::new();
    let mut classes: HashMap<(usize, Rc<RT>, Rc<RT>), usize> = HashMap::new();
    // classes bottom-up (index order is a topological order)
    for (i, n) in p.dag.iter().enumerate() {
        let kids: Vec<usize> = match n.sym {
            Sym::AssertL(h) => vec![imr_of[n.l as usize], 500_000 + h as usize],
            Sym::AssertR(h) => vec![500_000 + h as usize, imr_of[n.l as usize]],
            _ => match n.sym.arity() {
                0 => vec![],
                1 => vec![imr_of[n.l as usize]],
                _ => vec![imr_of[n.l as usize], imr_of[n.r as usize]],
            },
        };
        let w = match (&n.sym, &wit[i]) {
            (Sym::Witness, Some(v)) => Some((v.compact(), p.arrows[i].1.clone())),
            (Sym::Witness, None) => Some((RV::zero(&p.arrows[i].1).compact(), p.arrows[i].1.clone())),
            _ => None,
        };
        // assertl/assertr/case share the identity tag
        let kind = match n.sym {
            Sym::AssertL(_) | Sym::AssertR(_) | Sym::Case => "case".to_string(),
            Sym::Disc1 | Sym::Disc2 => "disconnect".to_string(),
            s => format!("{s:?}"),
        };
        let k = imr_classes.len();
        imr_of[i] = *imr_classes.entry(ImrKey::Node(kind, kids, w)).or_insert(k);
        let c = if !redeem && wd[i] {
            1_000_000 + i
        } else {
            let k = classes.len();
            *classes.entry((imr_of[i], p.arrows[i].0.clone(), p.arrows[i].1.clone())).or_insert(k)
        };
        class_of[i] = Some(c);
    }
    let mut hidden_pos: HashMap<u8, usize> = HashMap::new();
    let mut seen: HashMap<usize, usize> = HashMap::new();
    let mut w = Wire { nodes: vec![], origin: vec![], pos: vec![None; p.dag.len()] };
    fn hidden(h: u8, w: &mut Wire, hidden_pos: &mut HashMap<u8, usize>) -> usize {
        if let Some(p) = hidden_pos.get(&h) {
            return *p;
        }
        w.nodes.push(WNode::Hidden([h; 32]));
        w.origin.push(None);
        hidden_pos.insert(h, w.nodes.len() - 1);
        w.nodes.len() - 1
    }
    #[allow(clippy::too_many_arguments)]
    fn go(p: &Prog, i: usize, redeem: bool, wd: &[bool], class_of: &[Option<usize>], seen: &mut HashMap<usize, usize>, hidden_pos: &mut HashMap<u8, usize>, w: &mut Wire) -> usize {
        let c = class_of[i].unwrap();
        let unshareable = !redeem && wd[i];
        if !unshareable {
            if let Some(pos) = seen.get(&c) {
                w.pos[i] = Some(*pos);
                return *pos;
            }
        }
        let n = p.dag[i];
        let (l, r) = (n.l as usize, n.r as usize);
        let mut rec = |k: usize, w: &mut Wire, seen: &mut HashMap<usize, usize>, hp: &mut HashMap<u8, usize>| go(p, k, redeem, wd, class_of, seen, hp, w);
        let node = match n.sym {
            Sym::Iden => WNode::Iden,
            Sym::Unit => WNode::Unit,
            Sym::Witness => WNode::Witness,
            Sym::Fail(e) => WNode::Fail([e; 64]),
            Sym::Word(k, v) => WNode::Word(k, (0..(1usize << k)).rev().map(|b| v >> b & 1 == 1).collect()),
            Sym::Jet(j) => WNode::Jet(j),
            Sym::InjL => WNode::InjL(rec(l, w, seen, hidden_pos)),
            Sym::InjR => WNode::InjR(rec(l, w, seen, hidden_pos)),
            Sym::Take => WNode::Take(rec(l, w, seen, hidden_pos)),
            Sym::Drop => WNode::Drop(rec(l, w, seen, hidden_pos)),
            Sym::AssertL(h) => {
                let a = rec(l, w, seen, hidden_pos);
                let b = hidden(h, w, hidden_pos);
                WNode::Case(a, b)
            }
            Sym::AssertR(h) => {
                let a = hidden(h, w, hidden_pos);
                let b = rec(l, w, seen, hidden_pos);
                WNode::Case(a, b)
            }
            Sym::Disc1 => WNode::Disc1(rec(l, w, seen, hidden_pos)),
            Sym::Comp | Sym::Case | Sym::Pair => {
                let a = rec(l, w, seen, hidden_pos);
                let b = rec(r, w, seen, hidden_pos);
                match n.sym {
                    Sym::Comp => WNode::Comp(a, b),
                    Sym::Case => WNode::Case(a, b),
                    _ => WNode::Pair(a, b),
                }
            }
            Sym::Disc2 => {
                let a = rec(l, w, seen, hidden_pos);
                if redeem {
                    let b = rec(r, w, seen, hidden_pos);
                    WNode::Disc(a, b)
                } else {
                    WNode::Disc1(a)
                }
            }
        };
        w.nodes.push(node);
        w.origin.push(Some(i));
        let pos = w.nodes.len() - 1;
        if !unshareable {
            seen.insert(c, pos);
        }
        w.pos[i] = Some(pos);
        pos
    }
    go(p, p.dag.len() - 1, redeem, &wd, &class_of, &mut seen, &mut hidden_pos, &mut w);
    w
}
