//! E: Elements environments, as a product of small menus, built through the public
//! `ElementsEnv::new`.

use simplicity::elements::confidential::{self, Asset, Nonce, Value as CValue};
use simplicity::elements::secp256k1_zkp::{Generator, PedersenCommitment, Secp256k1, SecretKey, Tag, Tweak};
use simplicity::elements::taproot::ControlBlock;
use simplicity::elements::{
    AssetBlindingNonce, AssetEntropy, AssetId, AssetIssuance, BlockHash, LockTime, OutPoint, PeginData, PeginWitness, RangeProof, Script, Sequence, SurjectionProof, Transaction, TxIn, TxInWitness, TxOut, TxOutWitness, Txid, Witness,
};
use simplicity::jet::elements::{ElementsEnv, ElementsUtxo};
use simplicity::Cmr;
use std::sync::Arc;

pub type Env = ElementsEnv<Arc<Transaction>>;

#[derive(Clone, Copy, Debug, PartialEq, Eq)]
pub enum AssetK {
    Null,
    Explicit(u8),
    Confidential(u8),
}
#[derive(Clone, Copy, Debug, PartialEq, Eq)]
pub enum ValK {
    Null,
    Explicit(u64),
    Confidential(u8),
}
#[derive(Clone, Copy, Debug, PartialEq, Eq)]
pub enum NonceK {
    Null,
    Explicit(u8),
    Confidential(u8),
}
#[derive(Clone, Copy, Debug, PartialEq, Eq)]
pub enum IssK {
    None,
    New,
    Reissue,
}
#[derive(Clone, Copy, Debug, PartialEq, Eq)]
pub enum ScriptK {
    Empty,
    OneByte,
    OpReturn,
    Long,
    /// OP_RETURN followed by one of a menu of push forms (see `null_data_menu`)
    Null(u8),
}
#[derive(Clone, Copy, Debug, PartialEq, Eq)]
pub enum ProofK {
    Empty,
    Short,
    Long,
}

#[derive(Clone, Debug, PartialEq)]
pub struct InSpec {
    pub pegin: bool,
    pub issuance: IssK,
    pub iss_amount: ValK,
    pub iss_keys: ValK,
    pub iss_proofs: ProofK,
    /// annex bytes after the 0x50 tag (None = no annex item)
    pub annex: Option<Vec<u8>>,
    pub sequence: u32,
    pub script_sig: ScriptK,
    pub prev_txid: u8,
    pub vout: u32,
    pub utxo_asset: AssetK,
    pub utxo_value: ValK,
    pub utxo_script: ScriptK,
}

#[derive(Clone, Debug, PartialEq)]
pub struct OutSpec {
    pub asset: AssetK,
    pub value: ValK,
    pub nonce: NonceK,
    pub script: ScriptK,
    pub surjection: ProofK,
    pub range: ProofK,
    pub fee: bool,
}

#[derive(Clone, Debug, PartialEq)]
pub struct EnvSpec {
    pub version: u32,
    pub lock_time: u32,
    pub inputs: Vec<InSpec>,
    pub outputs: Vec<OutSpec>,
    pub ix: u32,
    pub merkle_steps: usize,
    pub leaf_version_odd: bool,
    pub script_cmr: u8,
    pub genesis: u8,
}

pub fn base_in() -> InSpec {
    InSpec {
        pegin: false,
        issuance: IssK::None,
        iss_amount: ValK::Null,
        iss_keys: ValK::Null,
        iss_proofs: ProofK::Empty,
        annex: None,
        sequence: 0xffff_fffe,
        script_sig: ScriptK::Empty,
        prev_txid: 0xeb,
        vout: 0,
        utxo_asset: AssetK::Explicit(0x23),
        utxo_value: ValK::Explicit(10_000_000_000),
        utxo_script: ScriptK::Empty,
    }
}
pub fn base_out() -> OutSpec {
    OutSpec { asset: AssetK::Explicit(0x23), value: ValK::Explicit(9_999_996_700), nonce: NonceK::Null, script: ScriptK::OneByte, surjection: ProofK::Empty, range: ProofK::Empty, fee: false }
}
pub fn base_env() -> EnvSpec {
    EnvSpec { version: 2, lock_time: 100, inputs: vec![base_in()], outputs: vec![base_out(), OutSpec { value: ValK::Explicit(3300), fee: true, ..base_out() }], ix: 0, merkle_steps: 0, leaf_version_odd: false, script_cmr: 0, genesis: 0x0f }
}

/// non-palindromic 32-byte pattern, so that a byte-order mix-up is visible
pub fn ramp(x: u8) -> [u8; 32] {
    core::array::from_fn(|i| x.wrapping_add((i as u8).wrapping_mul(7)))
}

// two valid curve x-coordinates (G and 2G)
const X1: [u8; 32] = [0x79, 0xBE, 0x66, 0x7E, 0xF9, 0xDC, 0xBB, 0xAC, 0x55, 0xA0, 0x62, 0x95, 0xCE, 0x87, 0x0B, 0x07, 0x02, 0x9B, 0xFC, 0xDB, 0x2D, 0xCE, 0x28, 0xD9, 0x59, 0xF2, 0x81, 0x5B, 0x16, 0xF8, 0x17, 0x98];
const X2: [u8; 32] = [0xC6, 0x04, 0x7F, 0x94, 0x41, 0xED, 0x7D, 0x6D, 0x30, 0x45, 0x40, 0x6E, 0x95, 0xC0, 0x7C, 0xD8, 0x5C, 0x77, 0x8E, 0x4B, 0x8C, 0xEF, 0x3C, 0xA7, 0xAB, 0xAC, 0x09, 0xB9, 0x5C, 0x70, 0x9E, 0xE5];

fn commit(prefix_even: u8, sel: u8) -> [u8; 33] {
    let mut b = [0u8; 33];
    b[0] = prefix_even + (sel & 1);
    b[1..].copy_from_slice(if sel & 2 == 0 { &X1 } else { &X2 });
    b
}

pub fn asset(k: AssetK) -> Asset {
    match k {
        AssetK::Null => Asset::Null,
        AssetK::Explicit(x) => Asset::Explicit(AssetId::from_byte_array(ramp(x))),
        AssetK::Confidential(s) => Asset::from_commitment(&commit(0x0a, s)).expect("valid asset commitment"),
    }
}
pub fn value(k: ValK) -> CValue {
    match k {
        ValK::Null => CValue::Null,
        ValK::Explicit(v) => CValue::Explicit(v),
        ValK::Confidential(s) => CValue::from_commitment(&commit(0x08, s)).expect("valid value commitment"),
    }
}
pub fn nonce(k: NonceK) -> Nonce {
    match k {
        NonceK::Null => Nonce::Null,
        NonceK::Explicit(x) => Nonce::Explicit(ramp(x)),
        NonceK::Confidential(s) => Nonce::from_commitment(&commit(0x02, s)).expect("valid nonce commitment"),
    }
}
pub fn script(k: ScriptK) -> Script {
    match k {
        ScriptK::Empty => Script::new(),
        ScriptK::OneByte => Script::from(vec![0x51]),
        // OP_RETURN <4 bytes> OP_1 <2 bytes> : a null datum script
        ScriptK::OpReturn => Script::from(vec![0x6a, 0x04, 0xde, 0xad, 0xbe, 0xef, 0x51, 0x02, 0xca, 0xfe]),
        ScriptK::Long => Script::from((0..300u32).map(|i| (i % 251) as u8).collect::<Vec<u8>>()),
        ScriptK::Null(k) => Script::from(null_data_menu()[k as usize].clone()),
    }
}

/// OP_RETURN scripts covering every kind of push opcode (and some that are not null data): bare, OP_1NEGATE,
/// OP_RESERVED, OP_1, OP_16 (the last push-only opcode), OP_NOP (not push-only), direct pushes, the three
/// PUSHDATA forms, a truncated push, several opcodes in a row
pub fn null_data_menu() -> Vec<Vec<u8>> {
    vec![
        vec![0x6a],
        vec![0x6a, 0x4f],
        vec![0x6a, 0x50],
        vec![0x6a, 0x51],
        vec![0x6a, 0x60],
        vec![0x6a, 0x61],
        vec![0x6a, 0x02, 0xab, 0xcd],
        vec![0x6a, 0x4c, 0x01, 0xaa],
        vec![0x6a, 0x4d, 0x02, 0x00, 0xaa, 0xbb],
        vec![0x6a, 0x4e, 0x01, 0x00, 0x00, 0x00, 0xaa],
        vec![0x6a, 0x02, 0xab],
        vec![0x6a, 0x60, 0x60, 0x4f, 0x01, 0x07, 0x5f],
        vec![0x6a, 0x00],
    ]
}

/// `salt` makes the proofs of different roles and positions different byte strings (two fields that
/// hold the same bytes cannot show that one was marshalled in the other's place)
fn range_proof(k: ProofK, salt: u8) -> RangeProof {
    match k {
        ProofK::Empty => RangeProof::EMPTY,
        ProofK::Short | ProofK::Long => {
            let secp = Secp256k1::new();
            let tag = Tag::from([7u8; 32]);
            let abf = Tweak::from_slice(&[1u8; 32]).unwrap();
            let gen = Generator::new_blinded(&secp, tag, abf);
            let vbf = Tweak::from_slice(&[2u8; 32]).unwrap();
            let val = 12345u64 + salt as u64;
            let com = PedersenCommitment::new(&secp, val, vbf, gen);
            let sk = SecretKey::from_slice(&[3u8.wrapping_add(salt); 32]).unwrap();
            let (exp, bits) = if k == ProofK::Short { (0, 4) } else { (0, 52) };
            RangeProof::new(&secp, 1, com, val, vbf, &[], &[], sk, exp, bits, gen).expect("range proof")
        }
    }
}
fn surjection_proof(k: ProofK, salt: u8) -> SurjectionProof {
    match k {
        ProofK::Empty => SurjectionProof::EMPTY,
        ProofK::Short => {
            let mut v = vec![1u8, 0, 0x01];
            v.extend([0x11u8.wrapping_add(salt); 64]);
            SurjectionProof::from_slice(&v).expect("surjection proof")
        }
        ProofK::Long => {
            let mut v = vec![8u8, 0, 0xff];
            v.extend((0..32 * 9).map(|i| ((i + salt as usize) % 253) as u8));
            SurjectionProof::from_slice(&v).expect("surjection proof")
        }
    }
}

pub struct Built {
    pub env: Env,
    pub tx: Arc<Transaction>,
    pub utxos: Vec<ElementsUtxo>,
    pub control_block: ControlBlock,
    pub control_block_bytes: Vec<u8>,
    pub script_cmr: [u8; 32],
    pub genesis: [u8; 32],
}

pub fn control_block_bytes(steps: usize, odd: bool) -> Vec<u8> {
    // leaf version 0xbe | parity, internal key = x(G)... the repo's own test key
    let mut v = vec![0xbe | u8::from(odd)];
    v.extend([0xeb, 0x04, 0xb6, 0x8e, 0x9a, 0x26, 0xd1, 0x16, 0x04, 0x6c, 0x76, 0xe8, 0xff, 0x47, 0x33, 0x2f, 0xb7, 0x1d, 0xda, 0x90, 0xff, 0x4b, 0xef, 0x53, 0x70, 0xf2, 0x52, 0x26, 0xd3, 0xbc, 0x09, 0xfc]);
    for s in 0..steps {
        v.extend(ramp(0x40 + s as u8));
    }
    v
}

pub fn build(spec: &EnvSpec) -> Built {
    let mut input = vec![];
    let mut utxos = vec![];
    for (k, i) in spec.inputs.iter().enumerate() {
        let mut stack: Vec<Vec<u8>> = vec![vec![0x01, k as u8], control_block_bytes(spec.merkle_steps, spec.leaf_version_odd)];
        if let Some(a) = &i.annex {
            let mut item = vec![0x50];
            item.extend(a);
            stack.push(item);
        }
        let asset_issuance = match i.issuance {
            IssK::None => AssetIssuance::null(),
            IssK::New => AssetIssuance { asset_blinding_nonce: AssetBlindingNonce::NEW_ISSUANCE, asset_entropy: AssetEntropy::from_byte_array(ramp(0x31 + k as u8)), amount: value(i.iss_amount), inflation_keys: value(i.iss_keys) },
            IssK::Reissue => AssetIssuance { asset_blinding_nonce: AssetBlindingNonce::from_byte_array(ramp(0x21)), asset_entropy: AssetEntropy::from_byte_array(ramp(0x32 + k as u8)), amount: value(i.iss_amount), inflation_keys: value(i.iss_keys) },
        };
        let pegin_witness = if i.pegin {
            use simplicity::bitcoin::hashes::Hash as _;
            PeginWitness::new(PeginData {
                value: 5000,
                asset_id: AssetId::from_byte_array(ramp(0x23)),
                genesis_hash: simplicity::bitcoin::BlockHash::from_byte_array(ramp(0x6f)),
                claim_script: simplicity::bitcoin::ScriptBuf::from_bytes(vec![0x00, 0x14, 1, 2, 3, 4, 5, 6, 7, 8, 9, 10, 11, 12, 13, 14, 15, 16, 17, 18, 19, 20]),
                transaction: vec![2, 0, 0, 0, 0, 0, 0, 0, 0, 0],
                merkle_proof: vec![0u8; 80],
                referenced_block: simplicity::bitcoin::BlockHash::from_byte_array([0x70; 32]),
            })
        } else {
            PeginWitness::EMPTY
        };
        input.push(TxIn {
            previous_output: OutPoint { txid: Txid::from_byte_array(ramp(i.prev_txid)), vout: i.vout },
            is_pegin: i.pegin,
            script_sig: script(i.script_sig),
            sequence: Sequence::from_consensus(i.sequence),
            asset_issuance,
            witness: TxInWitness {
                amount_rangeproof: if i.issuance != IssK::None { range_proof(i.iss_proofs, 2 * input.len() as u8 + 1) } else { RangeProof::EMPTY },
                inflation_keys_rangeproof: if i.issuance == IssK::New { range_proof(i.iss_proofs, 2 * input.len() as u8 + 2) } else { RangeProof::EMPTY },
                script_witness: Witness::from(stack),
                pegin_witness,
            },
        });
        utxos.push(ElementsUtxo { script_pubkey: script(i.utxo_script), asset: asset(i.utxo_asset), value: value(i.utxo_value) });
    }
    let output: Vec<TxOut> = spec
        .outputs
        .iter()
        .enumerate()
        .map(|(k, o)| TxOut {
            asset: asset(o.asset),
            value: value(o.value),
            nonce: nonce(o.nonce),
            script_pubkey: if o.fee { Script::new() } else { script(o.script) },
            witness: TxOutWitness { surjection_proof: surjection_proof(o.surjection, k as u8), rangeproof: range_proof(o.range, 100 + k as u8) },
        })
        .collect();
    let tx = Arc::new(Transaction { version: spec.version, lock_time: LockTime::from_consensus(spec.lock_time), input, output });
    let cbb = control_block_bytes(spec.merkle_steps, spec.leaf_version_odd);
    let control_block = ControlBlock::from_slice(&cbb).expect("control block");
    let script_cmr = ramp(spec.script_cmr);
    let genesis = ramp(spec.genesis);
    let annex = spec.inputs.get(spec.ix as usize).and_then(|i| i.annex.clone());
    let env = ElementsEnv::new(tx.clone(), utxos.clone(), spec.ix, Cmr::from_byte_array(script_cmr), control_block.clone(), annex, BlockHash::from_byte_array(genesis));
    Built { env, tx, utxos, control_block, control_block_bytes: cbb, script_cmr, genesis }
}

/// "one deviation from base" family of environments
pub fn one_deviation_envs() -> Vec<(String, EnvSpec)> {
    let b = base_env();
    let mut v: Vec<(String, EnvSpec)> = vec![("base".into(), b.clone())];
    let mut add = |name: &str, f: &dyn Fn(&mut EnvSpec)| {
        let mut e = b.clone();
        f(&mut e);
        v.push((name.to_string(), e));
    };
    for lt in [0u32, 41, 42, 43, 499_999_999, 500_000_000, 500_000_001, u32::MAX] {
        add(&format!("lock_time={lt}"), &|e| e.lock_time = lt);
    }
    for ver in [1u32, 3, u32::MAX] {
        add(&format!("version={ver}"), &|e| e.version = ver);
    }
    for seq in [0u32, 1, 0xffff_fffe, u32::MAX, 1 << 22, (1 << 22) | 5, 1 << 31, 65535, 65536] {
        add(&format!("in0.sequence={seq:#x}"), &|e| e.inputs[0].sequence = seq);
    }
    add("in0.pegin", &|e| e.inputs[0].pegin = true);
    for (n, iss, a, k) in [
        ("new/explicit/null", IssK::New, ValK::Explicit(1000), ValK::Null),
        ("new/explicit/explicit", IssK::New, ValK::Explicit(1000), ValK::Explicit(3)),
        ("new/confidential/confidential", IssK::New, ValK::Confidential(1), ValK::Confidential(2)),
        ("new/null/explicit", IssK::New, ValK::Null, ValK::Explicit(7)),
        ("reissue/explicit", IssK::Reissue, ValK::Explicit(55), ValK::Null),
        ("reissue/confidential", IssK::Reissue, ValK::Confidential(3), ValK::Null),
    ] {
        for pr in [ProofK::Empty, ProofK::Short] {
            add(&format!("in0.issuance={n}/proofs={pr:?}"), &|e| {
                e.inputs[0].issuance = iss;
                e.inputs[0].iss_amount = a;
                e.inputs[0].iss_keys = k;
                e.inputs[0].iss_proofs = pr;
            });
        }
    }
    for (n, a) in [("empty", vec![]), ("1", vec![0xaa]), ("300", vec![0x5a; 300])] {
        add(&format!("in0.annex={n}"), &|e| e.inputs[0].annex = Some(a.clone()));
    }
    add("in0.script_sig=1", &|e| e.inputs[0].script_sig = ScriptK::OneByte);
    add("in0.vout=7", &|e| e.inputs[0].vout = 7);
    for a in [AssetK::Confidential(0), AssetK::Confidential(3)] {
        add(&format!("in0.utxo_asset={a:?}"), &|e| e.inputs[0].utxo_asset = a);
    }
    for val in [ValK::Confidential(1), ValK::Explicit(0), ValK::Explicit(u64::MAX)] {
        add(&format!("in0.utxo_value={val:?}"), &|e| e.inputs[0].utxo_value = val);
    }
    for s in [ScriptK::OneByte, ScriptK::Long] {
        add(&format!("in0.utxo_script={s:?}"), &|e| e.inputs[0].utxo_script = s);
    }
    // more inputs / outputs and the index
    add("2 inputs ix=0", &|e| e.inputs.push(InSpec { prev_txid: 0x77, vout: 1, sequence: 5, annex: Some(vec![1, 2, 3]), ..base_in() }));
    add("2 inputs ix=1", &|e| {
        e.inputs.push(InSpec { prev_txid: 0x77, vout: 1, sequence: 5, annex: Some(vec![1, 2, 3]), utxo_value: ValK::Confidential(2), ..base_in() });
        e.ix = 1;
    });
    add("3 inputs ix=2", &|e| {
        e.inputs.push(InSpec { prev_txid: 0x77, pegin: true, ..base_in() });
        e.inputs.push(InSpec { prev_txid: 0x78, issuance: IssK::New, iss_amount: ValK::Explicit(9), ..base_in() });
        e.ix = 2;
    });
    add("0 outputs", &|e| e.outputs.clear());
    add("1 output", &|e| e.outputs.truncate(1));
    add("3 outputs", &|e| e.outputs.push(OutSpec { script: ScriptK::OpReturn, value: ValK::Explicit(0), ..base_out() }));
    for a in [AssetK::Confidential(1), AssetK::Explicit(0x24)] {
        add(&format!("out0.asset={a:?}"), &|e| e.outputs[0].asset = a);
    }
    for val in [ValK::Confidential(0), ValK::Explicit(1)] {
        add(&format!("out0.value={val:?}"), &|e| e.outputs[0].value = val);
    }
    for n in [NonceK::Explicit(9), NonceK::Confidential(1)] {
        add(&format!("out0.nonce={n:?}"), &|e| e.outputs[0].nonce = n);
    }
    for s in [ScriptK::Empty, ScriptK::OpReturn, ScriptK::Long] {
        add(&format!("out0.script={s:?}"), &|e| e.outputs[0].script = s);
    }
    let nmenu = null_data_menu().len() as u8;
    for k in 0..nmenu {
        add(&format!("out0.script=null-data#{k}"), &|e| e.outputs[0].script = ScriptK::Null(k));
    }
    // two null-data outputs in one transaction, in both orders (the C side sizes one shared opcode array
    // for all of them in a first pass and fills it in a second)
    for (a, b) in [(4u8, 6u8), (6, 4), (11, 6), (6, 11), (4, 4), (11, 11), (5, 6), (10, 4)] {
        add(&format!("out0.script=null-data#{a} + a third output with null-data#{b}"), &|e| {
            e.outputs[0].script = ScriptK::Null(a);
            e.outputs.push(OutSpec { script: ScriptK::Null(b), value: ValK::Explicit(0), ..base_out() });
        });
    }
    for p in [ProofK::Short, ProofK::Long] {
        add(&format!("out0.surjection={p:?}"), &|e| e.outputs[0].surjection = p);
        add(&format!("out0.range={p:?}"), &|e| e.outputs[0].range = p);
    }
    add("two fee outputs, two assets", &|e| e.outputs.push(OutSpec { asset: AssetK::Explicit(0x24), value: ValK::Explicit(17), fee: true, ..base_out() }));
    for m in [1usize, 2, 128] {
        add(&format!("merkle_steps={m}"), &|e| e.merkle_steps = m);
    }
    add("leaf_version_odd", &|e| e.leaf_version_odd = true);
    add("script_cmr=0xab", &|e| e.script_cmr = 0xab);
    add("genesis=0x00", &|e| e.genesis = 0);
    v
}

/// One deviation *at each position* of a three-input, three-output transaction whose inputs and
/// outputs are otherwise plain but pairwise distinct: a field marshalled from the wrong index, or
/// carried over from the previous index, is invisible when only input 0 or only the last input deviates.
pub fn positional_envs() -> Vec<(String, EnvSpec)> {
    let mut b = base_env();
    // pairwise distinct in every field that has more than one legal value
    b.inputs = vec![
        InSpec { prev_txid: 0xeb, vout: 0, sequence: 0xffff_fffe, ..base_in() },
        InSpec { prev_txid: 0x77, vout: 1, sequence: 0xffff_fff0, utxo_value: ValK::Explicit(20_000), utxo_asset: AssetK::Explicit(0x24), utxo_script: ScriptK::OneByte, script_sig: ScriptK::OneByte, ..base_in() },
        InSpec { prev_txid: 0x78, vout: 2, sequence: 0xffff_fff1, utxo_value: ValK::Explicit(30_000), utxo_asset: AssetK::Explicit(0x25), utxo_script: ScriptK::Long, ..base_in() },
    ];
    b.outputs = vec![
        base_out(),
        OutSpec { value: ValK::Explicit(11), script: ScriptK::Long, asset: AssetK::Explicit(0x24), nonce: NonceK::Explicit(9), ..base_out() },
        OutSpec { value: ValK::Explicit(3300), fee: true, ..base_out() },
    ];
    let mut v: Vec<(String, EnvSpec)> = vec![];
    for ix in 0..3u32 {
        let mut e = b.clone();
        e.ix = ix;
        v.push((format!("3 plain inputs ix={ix}"), e));
    }
    let in_devs: Vec<(&str, Box<dyn Fn(&mut InSpec)>)> = vec![
        ("annex=3", Box::new(|i| i.annex = Some(vec![1, 2, 3]))),
        ("annex=empty", Box::new(|i| i.annex = Some(vec![]))),
        ("pegin", Box::new(|i| i.pegin = true)),
        ("issuance=new/explicit", Box::new(|i| {
            i.issuance = IssK::New;
            i.iss_amount = ValK::Explicit(1000);
            i.iss_keys = ValK::Explicit(3);
        })),
        ("issuance=reissue/confidential/proofs", Box::new(|i| {
            i.issuance = IssK::Reissue;
            i.iss_amount = ValK::Confidential(3);
            i.iss_proofs = ProofK::Short;
        })),
        ("script_sig=1", Box::new(|i| i.script_sig = ScriptK::OneByte)),
        ("utxo_asset=confidential", Box::new(|i| i.utxo_asset = AssetK::Confidential(3))),
        ("utxo_value=confidential", Box::new(|i| i.utxo_value = ValK::Confidential(1))),
        ("utxo_script=long", Box::new(|i| i.utxo_script = ScriptK::Long)),
        ("sequence=0", Box::new(|i| i.sequence = 0)),
    ];
    for p in 0..3usize {
        for (n, f) in &in_devs {
            for ix in [p as u32, (p as u32 + 1) % 3] {
                let mut e = b.clone();
                f(&mut e.inputs[p]);
                e.ix = ix;
                v.push((format!("3 inputs, in{p}.{n} ix={ix}"), e));
            }
        }
    }
    let out_devs: Vec<(&str, Box<dyn Fn(&mut OutSpec)>)> = vec![
        ("asset=confidential", Box::new(|o| o.asset = AssetK::Confidential(1))),
        ("asset=other", Box::new(|o| o.asset = AssetK::Explicit(0x24))),
        ("value=confidential", Box::new(|o| o.value = ValK::Confidential(0))),
        ("nonce=explicit", Box::new(|o| o.nonce = NonceK::Explicit(9))),
        ("nonce=confidential", Box::new(|o| o.nonce = NonceK::Confidential(1))),
        ("script=op_return", Box::new(|o| o.script = ScriptK::OpReturn)),
        ("script=empty", Box::new(|o| o.script = ScriptK::Empty)),
        ("surjection=short", Box::new(|o| o.surjection = ProofK::Short)),
        ("range=short", Box::new(|o| o.range = ProofK::Short)),
    ];
    for p in 0..3usize {
        for (n, f) in &out_devs {
            let mut e = b.clone();
            f(&mut e.outputs[p]);
            v.push((format!("3 outputs, out{p}.{n}"), e));
        }
    }
    v
}

/// two simultaneous deviations (thorough)
pub fn two_deviation_envs() -> Vec<(String, EnvSpec)> {
    let ones = one_deviation_envs();
    let base = base_env();
    let mut v = vec![];
    for (i, (na, a)) in ones.iter().enumerate() {
        for (nb, b) in ones.iter().skip(i + 1) {
            // merge field-wise: take from a where it differs from base, else from b
            let mut e = b.clone();
            if a.version != base.version { e.version = a.version }
            if a.lock_time != base.lock_time { e.lock_time = a.lock_time }
            if a.merkle_steps != base.merkle_steps { e.merkle_steps = a.merkle_steps }
            if a.leaf_version_odd != base.leaf_version_odd { e.leaf_version_odd = a.leaf_version_odd }
            if a.script_cmr != base.script_cmr { e.script_cmr = a.script_cmr }
            if a.genesis != base.genesis { e.genesis = a.genesis }
            if a.inputs != base.inputs {
                if b.inputs != base.inputs && a.inputs.len() == 1 && b.inputs.len() == 1 {
                    // combine two single-input deviations field by field
                    let (x, y, z) = (&a.inputs[0], &b.inputs[0], base_in());
                    let mut m = y.clone();
                    if x.pegin != z.pegin { m.pegin = x.pegin }
                    if x.issuance != z.issuance { m.issuance = x.issuance; m.iss_amount = x.iss_amount; m.iss_keys = x.iss_keys; m.iss_proofs = x.iss_proofs }
                    if x.annex != z.annex { m.annex = x.annex.clone() }
                    if x.sequence != z.sequence { m.sequence = x.sequence }
                    if x.script_sig != z.script_sig { m.script_sig = x.script_sig }
                    if x.vout != z.vout { m.vout = x.vout }
                    if x.utxo_asset != z.utxo_asset { m.utxo_asset = x.utxo_asset }
                    if x.utxo_value != z.utxo_value { m.utxo_value = x.utxo_value }
                    if x.utxo_script != z.utxo_script { m.utxo_script = x.utxo_script }
                    e.inputs = vec![m];
                } else if b.inputs == base.inputs {
                    e.inputs = a.inputs.clone();
                    e.ix = a.ix;
                } else {
                    continue;
                }
            }
            if a.outputs != base.outputs {
                if b.outputs != base.outputs {
                    continue;
                }
                e.outputs = a.outputs.clone();
            }
            v.push((format!("{na} + {nb}"), e));
        }
    }
    v
}
