pub mod values;
pub mod dag;
pub mod programs;
