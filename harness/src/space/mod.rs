pub mod values;
pub mod dag;
