pub mod values;
