pub mod values;
pub mod dag;
pub mod programs;
pub mod terms;
pub mod envs;
