//! W(s, T_k): typed term space, generated type-directed; builders into real nodes with every
//! node's arrow pinned; placement wrappers; execution on the real Bit Machine.

use crate::reference::eval::{Failure, TOut, Term, Tm, TraceEv};
use crate::reference::merkle::Merkle;
use crate::reference::tyval::*;
use crate::space::dag::{hidden_cmr, word_of, CNode, Fam};
use simplicity::bit_machine::{ExecTracker, ExecutionError, FrameIter, NodeOutput};
use simplicity::jet::CoreEnv;
use simplicity::node::{CoreConstructible, DisconnectConstructible, RedeemNode, WitnessConstructible};
use simplicity::types::{self, Final, Type};
use simplicity::{BitMachine, FailEntropy};
use std::collections::HashMap;
use std::rc::Rc;
use std::sync::Arc;

pub struct Universe {
    pub types: Vec<Rc<RT>>,
    pub index: HashMap<Rc<RT>, usize>,
    /// memo: (src, tgt, exact size) -> terms
    memo: HashMap<(usize, usize, usize), Rc<Vec<Rc<Term>>>>,
    pub with_failing: bool,
    pub witness_cap: usize,
}

impl Universe {
    pub fn new(k: usize, with_failing: bool) -> Self {
        let types = types_upto(k);
        let index = types.iter().enumerate().map(|(i, t)| (t.clone(), i)).collect();
        Universe { types, index, memo: HashMap::new(), with_failing, witness_cap: 8 }
    }
    /// a universe over an explicit list of types (terms only pass through listed types)
    pub fn with_types(types: Vec<Rc<RT>>, with_failing: bool) -> Self {
        let index = types.iter().enumerate().map(|(i, t)| (t.clone(), i)).collect();
        Universe { types, index, memo: HashMap::new(), with_failing, witness_cap: 8 }
    }
    fn ix(&self, t: &Rc<RT>) -> Option<usize> {
        self.index.get(t).copied()
    }
    /// all terms of exactly `size` nodes with arrow a -> b
    pub fn gen(&mut self, a: usize, b: usize, size: usize) -> Rc<Vec<Rc<Term>>> {
        if let Some(v) = self.memo.get(&(a, b, size)) {
            return v.clone();
        }
        let (ta, tb) = (self.types[a].clone(), self.types[b].clone());
        let mut out: Vec<Rc<Term>> = vec![];
        if size == 1 {
            if a == b {
                out.push(Term::new(Tm::Iden, &ta, &tb));
            }
            if *tb == RT::Unit {
                out.push(Term::new(Tm::Unit, &ta, &tb));
            }
            let (vals, _) = values_of(&tb, self.witness_cap);
            for v in vals {
                out.push(Term::new(Tm::Witness(v), &ta, &tb));
            }
            if self.with_failing {
                out.push(Term::new(Tm::Fail(3), &ta, &tb));
            }
            if *ta == RT::Unit && tb.as_word() == Some(0) {
                out.push(Term::new(Tm::Word(0, 1), &ta, &tb));
            }
            if *ta == RT::Unit && tb.as_word() == Some(1) {
                out.push(Term::new(Tm::Word(1, 2), &ta, &tb));
            }
            if ta.as_word() == Some(0) && *tb == RT::Unit {
                out.push(Term::new(Tm::Jet("verify"), &ta, &tb));
            }
        } else {
            // unary
            if let RT::Sum(b1, b2) = &*tb {
                if let Some(i) = self.ix(b1) {
                    for t in self.gen(a, i, size - 1).iter() {
                        out.push(Term::new(Tm::InjL(t.clone()), &ta, &tb));
                    }
                }
                if let Some(i) = self.ix(b2) {
                    for t in self.gen(a, i, size - 1).iter() {
                        out.push(Term::new(Tm::InjR(t.clone()), &ta, &tb));
                    }
                }
            }
            if let RT::Prod(a1, a2) = &*ta {
                if let Some(i) = self.ix(a1) {
                    for t in self.gen(i, b, size - 1).iter() {
                        out.push(Term::new(Tm::Take(t.clone()), &ta, &tb));
                    }
                }
                if let Some(i) = self.ix(a2) {
                    for t in self.gen(i, b, size - 1).iter() {
                        out.push(Term::new(Tm::Drop(t.clone()), &ta, &tb));
                    }
                }
                // case / assertions: a = (a11 + a12) x c
                if let RT::Sum(l, r) = &**a1 {
                    let lc = self.ix(&RT::prod(l, a2));
                    let rc = self.ix(&RT::prod(r, a2));
                    if self.with_failing {
                        if let Some(i) = lc {
                            for t in self.gen(i, b, size - 1).iter() {
                                out.push(Term::new(Tm::AssertL(t.clone(), 5), &ta, &tb));
                            }
                        }
                        if let Some(i) = rc {
                            for t in self.gen(i, b, size - 1).iter() {
                                out.push(Term::new(Tm::AssertR(5, t.clone()), &ta, &tb));
                            }
                        }
                    }
                    if let (Some(i), Some(j)) = (lc, rc) {
                        for s1 in 1..size - 1 {
                            let s2 = size - 1 - s1;
                            let (ls, rs) = (self.gen(i, b, s1), self.gen(j, b, s2));
                            for x in ls.iter() {
                                for y in rs.iter() {
                                    out.push(Term::new(Tm::Case(x.clone(), y.clone()), &ta, &tb));
                                }
                            }
                        }
                    }
                }
            }
            if size >= 3 {
                // comp through every mid type
                for c in 0..self.types.len() {
                    for s1 in 1..size - 1 {
                        let s2 = size - 1 - s1;
                        let (ls, rs) = (self.gen(a, c, s1), self.gen(c, b, s2));
                        for x in ls.iter() {
                            for y in rs.iter() {
                                out.push(Term::new(Tm::Comp(x.clone(), y.clone()), &ta, &tb));
                            }
                        }
                    }
                }
                if let RT::Prod(b1, b2) = &*tb {
                    if let (Some(i), Some(j)) = (self.ix(b1), self.ix(b2)) {
                        for s1 in 1..size - 1 {
                            let s2 = size - 1 - s1;
                            let (ls, rs) = (self.gen(a, i, s1), self.gen(a, j, s2));
                            for x in ls.iter() {
                                for y in rs.iter() {
                                    out.push(Term::new(Tm::Pair(x.clone(), y.clone()), &ta, &tb));
                                }
                            }
                        }
                    }
                }
            }
        }
        let v = Rc::new(out);
        self.memo.insert((a, b, size), v.clone());
        v
    }
}

// -------------------------------------------------------------------------------------------------
// placement wrappers

pub fn bits_type(r: usize) -> Rc<RT> {
    let mut t = RT::bit();
    for _ in 1..r {
        t = RT::prod(&RT::bit(), &t);
    }
    t
}
pub fn ones(t: &RT) -> Rc<RV> {
    match t {
        RT::Unit => RV::unit(),
        RT::Sum(_, b) => RV::r(&ones(b)),
        RT::Prod(a, b) => RV::pair(&ones(a), &ones(b)),
    }
}

#[derive(Clone, Copy, Debug, PartialEq, Eq)]
pub enum Place {
    Bare,
    ReadOffset(usize),
    WriteOffset(usize),
    DirtyFrames,
    DirtyOutput,
    /// pair t iden : A -> B x A: the input frame is read again after t has run (a cursor that t leaves
    /// displaced in the read frame shows in the second component)
    ThenReread,
    /// pair iden t : A -> A x B: t writes behind something already written
    AfterCopy,
    /// DirtyFrames inside ReadOffset(k): the frames t allocates lie over released cells full of ones AND start
    /// k bits later than they otherwise would (k = 1..7 covers every alignment of a fresh frame)
    DirtyAt(usize),
}

pub fn placements() -> Vec<Place> {
    let mut v = vec![Place::Bare];
    for r in 1..8 {
        v.push(Place::ReadOffset(r));
    }
    for w in 1..8 {
        v.push(Place::WriteOffset(w));
    }
    v.push(Place::DirtyFrames);
    v.push(Place::DirtyOutput);
    v.push(Place::ThenReread);
    v.push(Place::AfterCopy);
    v
}

/// The wrapped term and a projection from its result to the result of `t`.
pub fn place(t: &Rc<Term>, p: Place) -> Rc<Term> {
    let (a, b) = (&t.src, &t.tgt);
    let one = RT::unit();
    match p {
        Place::Bare => t.clone(),
        Place::ReadOffset(r) => {
            let rt = bits_type(r);
            let w = Term::new(Tm::Witness(ones(&rt)), a, &rt);
            let id = Term::new(Tm::Iden, a, a);
            let ra = RT::prod(&rt, a);
            let pr = Term::new(Tm::Pair(w, id), a, &ra);
            let dr = Term::new(Tm::Drop(t.clone()), &ra, b);
            Term::new(Tm::Comp(pr, dr), a, b)
        }
        Place::WriteOffset(w) => {
            let wt = bits_type(w);
            let wn = Term::new(Tm::Witness(ones(&wt)), a, &wt);
            Term::new(Tm::Pair(wn, t.clone()), a, &RT::prod(&wt, b))
        }
        Place::DirtyFrames => {
            // pair (comp (witness ones : A -> 2^64) unit) t : A -> 1 x B
            let big = RT::word(6);
            let wn = Term::new(Tm::Witness(ones(&big)), a, &big);
            let un = Term::new(Tm::Unit, &big, &one);
            let c = Term::new(Tm::Comp(wn, un), a, &one);
            Term::new(Tm::Pair(c, t.clone()), a, &RT::prod(&one, b))
        }
        Place::DirtyAt(k) => place(&place(t, Place::DirtyFrames), Place::ReadOffset(k)),
        Place::ThenReread => Term::new(Tm::Pair(t.clone(), Term::new(Tm::Iden, a, a)), a, &RT::prod(b, a)),
        Place::AfterCopy => Term::new(Tm::Pair(Term::new(Tm::Iden, a, a), t.clone()), a, &RT::prod(a, b)),
        Place::DirtyOutput => {
            // comp (pair (comp (witness ones) unit) t) (drop iden) : A -> B, t writes into a reused frame
            let big = RT::word(6);
            let wn = Term::new(Tm::Witness(ones(&big)), a, &big);
            let un = Term::new(Tm::Unit, &big, &one);
            let c = Term::new(Tm::Comp(wn, un), a, &one);
            let ob = RT::prod(&one, b);
            let pr = Term::new(Tm::Pair(c, t.clone()), a, &ob);
            let id = Term::new(Tm::Iden, b, b);
            let dr = Term::new(Tm::Drop(id), &ob, b);
            Term::new(Tm::Comp(pr, dr), a, b)
        }
    }
}

/// project the wrapped result back to t's result
pub fn unplace(v: &Rc<RV>, p: Place) -> Rc<RV> {
    match p {
        Place::ThenReread => match &**v {
            RV::Pair(a, _) => a.clone(),
            _ => panic!("wrapped result is not a pair"),
        },
        Place::WriteOffset(_) | Place::DirtyFrames | Place::AfterCopy | Place::DirtyAt(_) => match &**v {
            RV::Pair(_, b) => b.clone(),
            _ => panic!("wrapped result is not a pair"),
        },
        _ => v.clone(),
    }
}

// -------------------------------------------------------------------------------------------------
// building and running on the real library

pub struct Builder {
    finals: HashMap<Rc<RT>, Arc<Final>>,
    pub merkle: Merkle,
    pub fam: Fam,
    /// pin every node's arrow to the term's annotation (default); off = leave inference alone
    pub pin: bool,
}

impl Builder {
    pub fn new() -> Self {
        Builder { finals: HashMap::new(), merkle: Merkle::default(), fam: Fam::Core, pin: true }
    }
    pub fn with_family(fam: Fam) -> Self {
        Builder { finals: HashMap::new(), merkle: Merkle::default(), fam, pin: true }
    }
    pub fn fin(&mut self, t: &Rc<RT>) -> Arc<Final> {
        if let Some(f) = self.finals.get(t) {
            return f.clone();
        }
        let f = t.to_final();
        self.finals.insert(t.clone(), f.clone());
        f
    }
    fn build<'b>(&mut self, ctx: &types::Context<'b>, t: &Term) -> Result<CNode<'b>, String> {
        let e = |x: types::Error| format!("construction failed at {}: {x}", t.render());
        let node: CNode<'b> = match &t.tm {
            Tm::Iden => CNode::iden(ctx),
            Tm::Unit => CNode::unit(ctx),
            Tm::InjL(s) => CNode::injl(&self.build(ctx, s)?),
            Tm::InjR(s) => CNode::injr(&self.build(ctx, s)?),
            Tm::Take(s) => CNode::take(&self.build(ctx, s)?),
            Tm::Drop(s) => CNode::drop_(&self.build(ctx, s)?),
            Tm::Comp(a, b) => {
                let (x, y) = (self.build(ctx, a)?, self.build(ctx, b)?);
                CNode::comp(&x, &y).map_err(e)?
            }
            Tm::Case(a, b) => {
                let (x, y) = (self.build(ctx, a)?, self.build(ctx, b)?);
                CNode::case(&x, &y).map_err(e)?
            }
            Tm::Pair(a, b) => {
                let (x, y) = (self.build(ctx, a)?, self.build(ctx, b)?);
                CNode::pair(&x, &y).map_err(e)?
            }
            Tm::AssertL(a, h) => CNode::assertl(&self.build(ctx, a)?, hidden_cmr(*h)).map_err(e)?,
            Tm::AssertR(h, a) => CNode::assertr(hidden_cmr(*h), &self.build(ctx, a)?).map_err(e)?,
            Tm::Witness(v) => CNode::witness(ctx, Some(v.to_value(&t.tgt))),
            Tm::Word(n, v) => CNode::const_word(ctx, word_of(*n, *v)),
            Tm::Fail(x) => CNode::fail(ctx, FailEntropy::from_byte_array([*x; 64])),
            Tm::Jet(name) => CNode::jet(ctx, self.fam.jet(self.fam.find(name)).as_ref()),
            Tm::Disconnect(a, b) => {
                let (x, y) = (self.build(ctx, a)?, self.build(ctx, b)?);
                CNode::disconnect(&x, &Some(y)).map_err(e)?
            }
        };
        if !self.pin {
            return Ok(node);
        }
        // pin the arrow of this node to the annotated types
        let (fs, ft) = (self.fin(&t.src), self.fin(&t.tgt));
        ctx.unify(&node.arrow().source, &Type::complete(ctx, fs), "harness: pin source").map_err(|x| format!("annotated source type of {} rejected: {x}", t.render()))?;
        ctx.unify(&node.arrow().target, &Type::complete(ctx, ft), "harness: pin target").map_err(|x| format!("annotated target type of {} rejected: {x}", t.render()))?;
        Ok(node)
    }
    pub fn redeem(&mut self, t: &Term) -> Result<Arc<RedeemNode>, String> {
        types::Context::with_context(|ctx| {
            let n = self.build(&ctx, t)?;
            n.finalize_unpruned().map_err(|e| format!("finalize_unpruned failed: {e}"))
        })
    }
    /// reference CMR of a term (for disconnect)
    pub fn cmr(&mut self, t: &Term) -> [u8; 32] {
        match &t.tm {
            Tm::Iden => self.merkle.cmr_leaf("iden"),
            Tm::Unit => self.merkle.cmr_leaf("unit"),
            Tm::Witness(_) => self.merkle.cmr_leaf("witness"),
            Tm::Fail(e) => self.merkle.cmr_fail(&[*e; 64]),
            Tm::Word(n, v) => {
                let bits: Vec<bool> = (0..(1usize << n)).rev().map(|b| v >> b & 1 == 1).collect();
                self.merkle.cmr_word(*n as usize, &bits)
            }
            Tm::Jet(name) => self.fam.jet(self.fam.find(name)).cmr().to_byte_array(),
            Tm::InjL(s) => {
                let c = self.cmr(s);
                self.merkle.cmr_unary("injl", &c)
            }
            Tm::InjR(s) => {
                let c = self.cmr(s);
                self.merkle.cmr_unary("injr", &c)
            }
            Tm::Take(s) => {
                let c = self.cmr(s);
                self.merkle.cmr_unary("take", &c)
            }
            Tm::Drop(s) => {
                let c = self.cmr(s);
                self.merkle.cmr_unary("drop", &c)
            }
            Tm::Disconnect(s, _) => {
                let c = self.cmr(s);
                self.merkle.cmr_unary("disconnect", &c)
            }
            Tm::AssertL(s, h) => {
                let c = self.cmr(s);
                self.merkle.cmr_binary("case", &c, &[*h; 32])
            }
            Tm::AssertR(h, s) => {
                let c = self.cmr(s);
                self.merkle.cmr_binary("case", &[*h; 32], &c)
            }
            Tm::Comp(a, b) => {
                let (x, y) = (self.cmr(a), self.cmr(b));
                self.merkle.cmr_binary("comp", &x, &y)
            }
            Tm::Case(a, b) => {
                let (x, y) = (self.cmr(a), self.cmr(b));
                self.merkle.cmr_binary("case", &x, &y)
            }
            Tm::Pair(a, b) => {
                let (x, y) = (self.cmr(a), self.cmr(b));
                self.merkle.cmr_binary("pair", &x, &y)
            }
        }
    }
}

/// What one execution on the real Bit Machine showed.
pub struct Obs {
    pub result: Result<Rc<RV>, Failure>,
    /// None if fine; Some(description) if the output value is not of the target type or unreadable
    pub output_problem: Option<String>,
    /// high-water marks (cells, frames) and the statically computed allowance (cells, frames)
    pub hw: (usize, usize),
    pub allowance: (usize, usize),
    pub limit_refused: bool,
}

pub fn run_on_machine(prog: &RedeemNode, input: &Rc<RV>, src: &Rc<RT>, tgt: &Arc<Final>) -> Result<Obs, String> {
    let mut mac = match BitMachine::for_program(prog) {
        Ok(m) => m,
        Err(e) => {
            return Ok(Obs { result: Err(Failure::Jet), output_problem: Some(format!("for_program refused: {e}")), hw: (0, 0), allowance: (0, 0), limit_refused: true });
        }
    };
    let io = prog.arrow().source.bit_width() + prog.arrow().target.bit_width();
    let allowance = (io + prog.bounds().extra_cells, prog.bounds().extra_frames + 2);
    mac.input(&input.to_value(src)).map_err(|e| format!("input refused: {e}"))?;
    let r = mac.exec(prog, &CoreEnv::new());
    let (cells, frames, _, _) = mac.verif_high_water();
    let mut output_problem = None;
    let result = match r {
        Ok(v) => {
            if !v.is_of_type(tgt) {
                output_problem = Some(format!("exec returns a value of type {} for a program with target type {}", v.ty(), tgt));
            }
            match RV::from_value(&v) {
                Ok(rv) => Ok(rv),
                Err(e) => {
                    output_problem = Some(format!("output value unreadable: {e}"));
                    Ok(RV::unit())
                }
            }
        }
        Err(ExecutionError::ReachedPrunedBranch(_)) => Err(Failure::Assert),
        Err(ExecutionError::ReachedFailNode(_)) => Err(Failure::FailNode),
        Err(ExecutionError::JetFailed(_)) => Err(Failure::Jet),
        Err(e) => return Err(format!("unexpected execution error: {e}")),
    };
    Ok(Obs { result, output_problem, hw: (cells, frames), allowance, limit_refused: false })
}


/// Records what the Bit Machine shows to an `ExecTracker`: the node kind, the value its read frame holds at the
/// cursor (decoded by the reference decoder against the node's source type) and, for terminal nodes, the value
/// its write frame holds (against the target type).
pub struct Recorder {
    pub evs: Vec<Result<TraceEv, String>>,
}

fn frame_value(it: &FrameIter, ty: &Final) -> Result<Rc<RV>, String> {
    let rt = RT::from_final(ty);
    let w = rt.width() as usize;
    let bits: Vec<bool> = it.clone().take(w).collect();
    if bits.len() < w {
        return Err(format!("frame holds {} bits from its cursor, the type {} needs {}", bits.len(), rt, w));
    }
    let mut pos = 0;
    RV::from_padded(&rt, &bits, &mut pos).ok_or_else(|| format!("frame bits are not a value of {rt}"))
}

impl ExecTracker for Recorder {
    fn visit_node(&mut self, node: &RedeemNode, input: FrameIter, output: NodeOutput) {
        use simplicity::node::Inner;
        let kind = match node.inner() {
            Inner::Iden => "iden",
            Inner::Unit => "unit",
            Inner::InjL(_) => "injl",
            Inner::InjR(_) => "injr",
            Inner::Take(_) => "take",
            Inner::Drop(_) => "drop",
            Inner::Comp(..) => "comp",
            Inner::Case(..) => "case",
            Inner::AssertL(..) => "assertl",
            Inner::AssertR(..) => "assertr",
            Inner::Pair(..) => "pair",
            Inner::Disconnect(..) => "disconnect",
            Inner::Witness(_) => "witness",
            Inner::Fail(_) => "fail",
            Inner::Jet(_) => "jet",
            Inner::Word(_) => "word",
        };
        let ev = (|| {
            let input = frame_value(&input, &node.arrow().source).map_err(|e| format!("{kind}: input: {e}"))?;
            let out = match output {
                NodeOutput::NonTerminal => TOut::NonTerminal,
                NodeOutput::JetFailed => TOut::JetFailed,
                NodeOutput::Success(o) => TOut::Success(frame_value(&o, &node.arrow().target).map_err(|e| format!("{kind}: output: {e}"))?),
            };
            Ok(TraceEv { kind, input, out })
        })();
        self.evs.push(ev);
    }
}

/// one more execution of the program on `input`, under the recording tracker
pub fn trace_on_machine(prog: &RedeemNode, input: &Rc<RV>, src: &Rc<RT>) -> Result<Vec<Result<TraceEv, String>>, String> {
    let mut mac = BitMachine::for_program(prog).map_err(|e| format!("for_program refused: {e}"))?;
    mac.input(&input.to_value(src)).map_err(|e| format!("input refused: {e}"))?;
    let mut rec = Recorder { evs: vec![] };
    let _ = mac.exec_with_tracker(prog, &CoreEnv::new(), &mut rec);
    Ok(rec.evs)
}
