//! Textbook first-order unification over an explicit constraint list (one equation set per
//! typing-rule instance, read off the typing rules of Simplicity), Robinson style with an occurs
//! check at bind time, then free variables |-> unit. No union-find, no eager completion, no
//! sharing of work with src/types.

use super::tyval::RT;
use crate::space::dag::{Fam, Node, Sym};
use std::collections::HashMap;
use std::rc::Rc;

#[derive(Clone, Debug)]
enum Term {
    Var(Option<usize>), // binding
    Unit,
    Sum(usize, usize),
    Prod(usize, usize),
    /// a ground (complete) type kept as an atom until it meets a constructor
    Ground(Rc<RT>),
}

pub struct Unifier {
    terms: Vec<Term>,
}

#[derive(Debug, Clone, PartialEq, Eq)]
pub enum UErr {
    Clash,
    Occurs,
}

impl Unifier {
    pub fn new() -> Self {
        Unifier { terms: vec![] }
    }
    fn mk(&mut self, t: Term) -> usize {
        self.terms.push(t);
        self.terms.len() - 1
    }
    pub fn var(&mut self) -> usize {
        self.mk(Term::Var(None))
    }
    pub fn unit(&mut self) -> usize {
        self.mk(Term::Unit)
    }
    pub fn sum(&mut self, a: usize, b: usize) -> usize {
        self.mk(Term::Sum(a, b))
    }
    pub fn prod(&mut self, a: usize, b: usize) -> usize {
        self.mk(Term::Prod(a, b))
    }
    pub fn ground(&mut self, t: &Rc<RT>) -> usize {
        self.mk(Term::Ground(t.clone()))
    }
    fn walk(&self, mut t: usize) -> usize {
        while let Term::Var(Some(b)) = self.terms[t] {
            t = b;
        }
        t
    }
    /// expand a ground atom one level
    fn expand(&mut self, t: usize) {
        if let Term::Ground(g) = self.terms[t].clone() {
            self.terms[t] = match &*g {
                RT::Unit => Term::Unit,
                RT::Sum(a, b) => {
                    let (a, b) = (self.ground(a), self.ground(b));
                    Term::Sum(a, b)
                }
                RT::Prod(a, b) => {
                    let (a, b) = (self.ground(a), self.ground(b));
                    Term::Prod(a, b)
                }
            };
        }
    }
    fn occurs(&self, v: usize, t: usize, seen: &mut Vec<usize>) -> bool {
        let t = self.walk(t);
        if t == v {
            return true;
        }
        if seen.contains(&t) {
            return false;
        }
        seen.push(t);
        match self.terms[t] {
            Term::Sum(a, b) | Term::Prod(a, b) => self.occurs(v, a, seen) || self.occurs(v, b, seen),
            _ => false,
        }
    }
    pub fn unify(&mut self, a: usize, b: usize) -> Result<(), UErr> {
        let mut work = vec![(a, b)];
        while let Some((a, b)) = work.pop() {
            let (a, b) = (self.walk(a), self.walk(b));
            if a == b {
                continue;
            }
            match (self.terms[a].clone(), self.terms[b].clone()) {
                (Term::Var(None), _) => {
                    if self.occurs(a, b, &mut vec![]) {
                        return Err(UErr::Occurs);
                    }
                    self.terms[a] = Term::Var(Some(b));
                }
                (_, Term::Var(None)) => {
                    if self.occurs(b, a, &mut vec![]) {
                        return Err(UErr::Occurs);
                    }
                    self.terms[b] = Term::Var(Some(a));
                }
                (Term::Ground(x), Term::Ground(y)) => {
                    if x != y {
                        return Err(UErr::Clash);
                    }
                }
                (Term::Ground(_), _) => {
                    self.expand(a);
                    work.push((a, b));
                }
                (_, Term::Ground(_)) => {
                    self.expand(b);
                    work.push((a, b));
                }
                (Term::Unit, Term::Unit) => {}
                (Term::Sum(a1, a2), Term::Sum(b1, b2)) | (Term::Prod(a1, a2), Term::Prod(b1, b2)) => {
                    work.push((a1, b1));
                    work.push((a2, b2));
                }
                _ => return Err(UErr::Clash),
            }
        }
        Ok(())
    }
    /// resolve to a reference type, free variables |-> unit (memoised per term)
    pub fn resolve(&self, t: usize, memo: &mut HashMap<usize, Rc<RT>>) -> Rc<RT> {
        let t = self.walk(t);
        if let Some(r) = memo.get(&t) {
            return r.clone();
        }
        let r = match &self.terms[t] {
            Term::Var(_) | Term::Unit => RT::unit(),
            Term::Ground(g) => g.clone(),
            Term::Sum(a, b) => {
                let (a, b) = (self.resolve(*a, memo), self.resolve(*b, memo));
                RT::sum(&a, &b)
            }
            Term::Prod(a, b) => {
                let (a, b) = (self.resolve(*a, memo), self.resolve(*b, memo));
                RT::prod(&a, &b)
            }
        };
        memo.insert(t, r.clone());
        r
    }
}

/// Result of reference type inference on a DAG.
pub enum Infer {
    /// principal arrows (source, target) per node, free |-> unit
    Ok(Vec<(Rc<RT>, Rc<RT>)>),
    /// no finite solution; index of the node whose rule instance failed (in index order)
    Err(usize, UErr),
}

/// Generate and solve the typing constraints of the DAG. One variable pair per DAG node
/// (sharing is monomorphic). `program`: root source = root target = unit.
pub fn infer(dag: &[Node], fam: Fam, program: bool) -> Infer {
    let mut u = Unifier::new();
    let st: Vec<(usize, usize)> = (0..dag.len()).map(|_| (u.var(), u.var())).collect();
    for (i, n) in dag.iter().enumerate() {
        let (s, t) = st[i];
        let (l, r) = (n.l as usize, n.r as usize);
        let res: Result<(), UErr> = (|| {
            match n.sym {
                Sym::Iden => u.unify(s, t)?,
                Sym::Unit => {
                    let one = u.unit();
                    u.unify(t, one)?
                }
                Sym::Witness | Sym::Fail(_) => {}
                Sym::Word(k, _) => {
                    let one = u.unit();
                    u.unify(s, one)?;
                    let w = u.ground(&RT::word(k as usize));
                    u.unify(t, w)?
                }
                Sym::Jet(j) => {
                    let jet = fam.jet(j);
                    let a = u.ground(&RT::from_final(&jet.source_ty().to_final()));
                    let b = u.ground(&RT::from_final(&jet.target_ty().to_final()));
                    u.unify(s, a)?;
                    u.unify(t, b)?
                }
                Sym::InjL => {
                    u.unify(s, st[l].0)?;
                    let f = u.var();
                    let sm = u.sum(st[l].1, f);
                    u.unify(t, sm)?
                }
                Sym::InjR => {
                    u.unify(s, st[l].0)?;
                    let f = u.var();
                    let sm = u.sum(f, st[l].1);
                    u.unify(t, sm)?
                }
                Sym::Take => {
                    let f = u.var();
                    let p = u.prod(st[l].0, f);
                    u.unify(s, p)?;
                    u.unify(t, st[l].1)?
                }
                Sym::Drop => {
                    let f = u.var();
                    let p = u.prod(f, st[l].0);
                    u.unify(s, p)?;
                    u.unify(t, st[l].1)?
                }
                Sym::Comp => {
                    u.unify(st[l].1, st[r].0)?;
                    u.unify(s, st[l].0)?;
                    u.unify(t, st[r].1)?
                }
                Sym::Pair => {
                    u.unify(st[l].0, st[r].0)?;
                    u.unify(s, st[l].0)?;
                    let p = u.prod(st[l].1, st[r].1);
                    u.unify(t, p)?
                }
                Sym::Case | Sym::AssertL(_) | Sym::AssertR(_) => {
                    let (a, b, c) = (u.var(), u.var(), u.var());
                    let ab = u.sum(a, b);
                    let abc = u.prod(ab, c);
                    u.unify(s, abc)?;
                    match n.sym {
                        Sym::Case => {
                            let ac = u.prod(a, c);
                            u.unify(st[l].0, ac)?;
                            u.unify(t, st[l].1)?;
                            let bc = u.prod(b, c);
                            u.unify(st[r].0, bc)?;
                            u.unify(t, st[r].1)?
                        }
                        Sym::AssertL(_) => {
                            let ac = u.prod(a, c);
                            u.unify(st[l].0, ac)?;
                            u.unify(t, st[l].1)?
                        }
                        _ => {
                            let bc = u.prod(b, c);
                            u.unify(st[l].0, bc)?;
                            u.unify(t, st[l].1)?
                        }
                    }
                }
                Sym::Disc1 | Sym::Disc2 => {
                    let (a, b) = (u.var(), u.var());
                    let (c, d) = if n.sym == Sym::Disc2 { st[r] } else { (u.var(), u.var()) };
                    let h = u.ground(&RT::word(8));
                    let ha = u.prod(h, a);
                    u.unify(st[l].0, ha)?;
                    let bc = u.prod(b, c);
                    u.unify(st[l].1, bc)?;
                    u.unify(s, a)?;
                    let bd = u.prod(b, d);
                    u.unify(t, bd)?
                }
            }
            Ok(())
        })();
        if let Err(e) = res {
            return Infer::Err(i, e);
        }
    }
    if program {
        let (s, t) = st[dag.len() - 1];
        let one = u.unit();
        if let Err(e) = u.unify(s, one).and_then(|_| u.unify(t, one)) {
            return Infer::Err(dag.len(), e);
        }
    }
    let mut memo = HashMap::new();
    Infer::Ok(st.iter().map(|(s, t)| (u.resolve(*s, &mut memo), u.resolve(*t, &mut memo))).collect())
}
