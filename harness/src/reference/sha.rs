//! SHA-256 written from FIPS 180-4, independent of the `hashes` crate the library uses.

const K: [u32; 64] = [
    0x428a2f98, 0x71374491, 0xb5c0fbcf, 0xe9b5dba5, 0x3956c25b, 0x59f111f1, 0x923f82a4, 0xab1c5ed5, 0xd807aa98, 0x12835b01, 0x243185be, 0x550c7dc3, 0x72be5d74, 0x80deb1fe, 0x9bdc06a7, 0xc19bf174, 0xe49b69c1, 0xefbe4786,
    0x0fc19dc6, 0x240ca1cc, 0x2de92c6f, 0x4a7484aa, 0x5cb0a9dc, 0x76f988da, 0x983e5152, 0xa831c66d, 0xb00327c8, 0xbf597fc7, 0xc6e00bf3, 0xd5a79147, 0x06ca6351, 0x14292967, 0x27b70a85, 0x2e1b2138, 0x4d2c6dfc, 0x53380d13,
    0x650a7354, 0x766a0abb, 0x81c2c92e, 0x92722c85, 0xa2bfe8a1, 0xa81a664b, 0xc24b8b70, 0xc76c51a3, 0xd192e819, 0xd6990624, 0xf40e3585, 0x106aa070, 0x19a4c116, 0x1e376c08, 0x2748774c, 0x34b0bcb5, 0x391c0cb3, 0x4ed8aa4a,
    0x5b9cca4f, 0x682e6ff3, 0x748f82ee, 0x78a5636f, 0x84c87814, 0x8cc70208, 0x90befffa, 0xa4506ceb, 0xbef9a3f7, 0xc67178f2,
];

pub const H0: [u32; 8] = [0x6a09e667, 0xbb67ae85, 0x3c6ef372, 0xa54ff53a, 0x510e527f, 0x9b05688c, 0x1f83d9ab, 0x5be0cd19];

pub fn compress(state: [u32; 8], block: &[u8; 64]) -> [u32; 8] {
    let mut w = [0u32; 64];
    for i in 0..16 {
        w[i] = u32::from_be_bytes([block[4 * i], block[4 * i + 1], block[4 * i + 2], block[4 * i + 3]]);
    }
    for i in 16..64 {
        let s0 = w[i - 15].rotate_right(7) ^ w[i - 15].rotate_right(18) ^ (w[i - 15] >> 3);
        let s1 = w[i - 2].rotate_right(17) ^ w[i - 2].rotate_right(19) ^ (w[i - 2] >> 10);
        w[i] = w[i - 16].wrapping_add(s0).wrapping_add(w[i - 7]).wrapping_add(s1);
    }
    let [mut a, mut b, mut c, mut d, mut e, mut f, mut g, mut h] = state;
    for i in 0..64 {
        let s1 = e.rotate_right(6) ^ e.rotate_right(11) ^ e.rotate_right(25);
        let ch = (e & f) ^ (!e & g);
        let t1 = h.wrapping_add(s1).wrapping_add(ch).wrapping_add(K[i]).wrapping_add(w[i]);
        let s0 = a.rotate_right(2) ^ a.rotate_right(13) ^ a.rotate_right(22);
        let maj = (a & b) ^ (a & c) ^ (b & c);
        let t2 = s0.wrapping_add(maj);
        h = g;
        g = f;
        f = e;
        e = d.wrapping_add(t1);
        d = c;
        c = b;
        b = a;
        a = t1.wrapping_add(t2);
    }
    [
        state[0].wrapping_add(a),
        state[1].wrapping_add(b),
        state[2].wrapping_add(c),
        state[3].wrapping_add(d),
        state[4].wrapping_add(e),
        state[5].wrapping_add(f),
        state[6].wrapping_add(g),
        state[7].wrapping_add(h),
    ]
}

pub fn state_bytes(s: [u32; 8]) -> [u8; 32] {
    let mut o = [0u8; 32];
    for i in 0..8 {
        o[4 * i..4 * i + 4].copy_from_slice(&s[i].to_be_bytes());
    }
    o
}

pub fn sha256(data: &[u8]) -> [u8; 32] {
    let mut m = data.to_vec();
    m.push(0x80);
    while m.len() % 64 != 56 {
        m.push(0);
    }
    m.extend(((data.len() as u64) * 8).to_be_bytes());
    let mut s = H0;
    for b in m.chunks(64) {
        s = compress(s, b.try_into().unwrap());
    }
    state_bytes(s)
}

/// Midstate after hashing SHA256(tag) || SHA256(tag) (BIP-340 tagged hash IV).
pub fn tag_iv(tag: &[u8]) -> [u32; 8] {
    let t = sha256(tag);
    let mut b = [0u8; 64];
    b[..32].copy_from_slice(&t);
    b[32..].copy_from_slice(&t);
    compress(H0, &b)
}

pub fn block(l: &[u8; 32], r: &[u8; 32]) -> [u8; 64] {
    let mut b = [0u8; 64];
    b[..32].copy_from_slice(l);
    b[32..].copy_from_slice(r);
    b
}
