//! Bit-vector reference model for the bit reader / writer and the natural-number code.

pub fn bytes_to_bits(b: &[u8]) -> Vec<bool> {
    let mut v = Vec::with_capacity(b.len() * 8);
    for x in b {
        for i in 0..8 {
            v.push(x & (0x80 >> i) != 0);
        }
    }
    v
}

pub fn bits_to_bytes(bits: &[bool]) -> Vec<u8> {
    let mut out = vec![0u8; bits.len().div_ceil(8)];
    for (i, b) in bits.iter().enumerate() {
        if *b {
            out[i / 8] |= 0x80 >> (i % 8);
        }
    }
    out
}

pub fn bits_str(bits: &[bool]) -> String {
    bits.iter().map(|b| if *b { '1' } else { '0' }).collect()
}

/// Reference encoding of a natural: enc(1) = "0"; enc(n) = "1" ++ enc(len) ++ low `len` bits of n,
/// where len = floor(log2 n).
pub fn ref_encode_natural(n: u64) -> Vec<bool> {
    assert!(n >= 1);
    if n == 1 {
        return vec![false];
    }
    let len = 63 - n.leading_zeros() as u64;
    let mut v = vec![true];
    v.extend(ref_encode_natural(len));
    for i in (0..len).rev() {
        v.push(n >> i & 1 == 1);
    }
    v
}

#[derive(Debug, Clone, PartialEq, Eq)]
pub enum RefNat {
    /// value and number of bits consumed
    Ok(u128, usize),
    /// stream ended inside the code word
    Eos,
    /// the code word denotes a number >= 2^64 (or a length that large): certainly out of range
    Huge,
}

/// Reference decoder by the recursive definition, with wide integers.
pub fn ref_decode_natural(bits: &[bool], pos: usize) -> RefNat {
    fn go(bits: &[bool], pos: &mut usize) -> Result<u128, RefNat> {
        let b = *bits.get(*pos).ok_or(RefNat::Eos)?;
        *pos += 1;
        if !b {
            return Ok(1);
        }
        let len = go(bits, pos)?;
        if len >= 64 {
            return Err(RefNat::Huge);
        }
        let mut n: u128 = 1;
        for _ in 0..len {
            let b = *bits.get(*pos).ok_or(RefNat::Eos)?;
            *pos += 1;
            n = 2 * n + b as u128;
        }
        Ok(n)
    }
    let mut p = pos;
    match go(bits, &mut p) {
        Ok(n) => RefNat::Ok(n, p - pos),
        Err(e) => e,
    }
}

pub fn hex(b: &[u8]) -> String {
    b.iter().map(|x| format!("{x:02x}")).collect()
}
