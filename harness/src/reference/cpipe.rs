//! Driver for the vendored C reference implementation (libsimplicity), through the `pub` FFI items
//! of `simplicity_sys::tests::ffi`. `evalTCOExpression` is bound here with its true 9-parameter
//! C signature (the repo's test binding lacked `minCost` at the pinned commit, finding F6).

use simplicity_sys::ffi::sha256::CSha256Midstate;
use simplicity_sys::ffi::{c_size_t, c_uchar, ubounded, UBOUNDED_MAX, UWORD};
use simplicity_sys::tests::ffi::bitstream::{simplicity_closeBitstream, CBitstream};
use simplicity_sys::tests::ffi::dag::{simplicity_computeAnnotatedMerkleRoot, simplicity_fillWitnessData, simplicity_verifyNoDuplicateIdentityHashes, CAnalyses, CCombinatorCounters, CDagNode};
use simplicity_sys::tests::ffi::deserialize::simplicity_decodeMallocDag;
use simplicity_sys::tests::ffi::elements::{simplicity_elements_decodeJet, simplicity_elements_mallocBoundVars};
use simplicity_sys::tests::ffi::eval::simplicity_analyseBounds;
use simplicity_sys::tests::ffi::ty::CType;
use simplicity_sys::tests::ffi::type_inference::simplicity_mallocTypeInference;
use simplicity_sys::tests::ffi::SimplicityErr;
use simplicity_sys::CElementsTxEnv;
use std::ptr;

pub const CHECK_NONE: c_uchar = 0;
pub const CHECK_ALL: c_uchar = 0xff;

#[allow(clashing_extern_declarations)]
extern "C" {
    #[link_name = "rustsimplicity_0_7_evalTCOExpression"]
    fn c_evalTCOExpression(anti_dos_checks: c_uchar, output: *mut UWORD, input: *const UWORD, dag: *const CDagNode, type_dag: *mut CType, len: c_size_t, min_cost: ubounded, budget: *const ubounded, env: *const CElementsTxEnv) -> i32;
}

pub fn err_name(code: i32) -> &'static str {
    match code {
        0 => "NoError",
        -1 => "Malloc",
        -2 => "DataOutOfRange",
        -3 => "NotYetImplemented",
        -4 => "DataOutOfOrder",
        -6 => "FailCode",
        -8 => "StopCode",
        -10 => "Hidden",
        -12 => "BitstreamEof",
        -14 => "BitstreamTrailingBytes",
        -16 => "BitstreamIllegalPadding",
        -18 => "TypeInferenceUnification",
        -20 => "TypeInferenceOccursCheck",
        -22 => "TypeInferenceNotProgram",
        -24 => "WitnessEof",
        -26 => "WitnessTrailingBytes",
        -28 => "WitnessIllegalPadding",
        -30 => "UnsharedSubexpression",
        -32 => "Cmr",
        -34 => "ExecBudget",
        -36 => "ExecMemory",
        -38 => "ExecJet",
        -40 => "ExecAssert",
        -42 => "AntiDoS",
        -44 => "HiddenRoot",
        -46 => "Amr",
        -48 => "Overweight",
        _ => "Unknown",
    }
}

fn code(e: SimplicityErr) -> i32 {
    e as i32
}

pub fn midstate_bytes(m: &CSha256Midstate) -> [u8; 32] {
    let mut o = [0u8; 32];
    for i in 0..8 {
        o[4 * i..4 * i + 4].copy_from_slice(&m.s[i].to_be_bytes());
    }
    o
}

pub struct CProg {
    dag: *mut CDagNode,
    type_dag: *mut CType,
    pub len: usize,
    census: CCombinatorCounters,
    _prog: Vec<u8>,
    _wit: Vec<u8>,
}

impl Drop for CProg {
    fn drop(&mut self) {
        unsafe {
            if !self.dag.is_null() {
                simplicity_sys::alloc::rust_0_7_free(self.dag as *mut u8);
            }
            if !self.type_dag.is_null() {
                simplicity_sys::alloc::rust_0_7_free(self.type_dag as *mut u8);
            }
        }
    }
}

#[derive(Debug, Clone, Copy, PartialEq, Eq)]
pub struct CRoots {
    pub cmr: [u8; 32],
    pub amr: [u8; 32],
    pub ihr: [u8; 32],
    pub cost: u32,
    pub cells: u32,
    pub frames: u32,
}

impl CProg {
    /// decodeMallocDag + closeBitstream. Err(code) on rejection.
    pub fn decode(program: &[u8]) -> Result<CProg, i32> {
        let prog = program.to_vec();
        let mut stream = CBitstream::from(prog.as_slice());
        let mut census = CCombinatorCounters::default();
        let mut dag = ptr::null_mut();
        let r = unsafe { simplicity_decodeMallocDag(&mut dag, simplicity_elements_decodeJet, &mut census, &mut stream) };
        let mut p = CProg { dag, type_dag: ptr::null_mut(), len: 0, census, _prog: prog, _wit: vec![] };
        if r < 0 {
            return Err(r);
        }
        p.len = r as usize;
        let c = unsafe { simplicity_closeBitstream(&mut stream) };
        if c < 0 {
            return Err(c);
        }
        Ok(p)
    }
    pub fn infer(&mut self) -> Result<(), i32> {
        let r = unsafe { simplicity_mallocTypeInference(&mut self.type_dag, simplicity_elements_mallocBoundVars, self.dag, self.len, &self.census) };
        if r != SimplicityErr::NoError {
            return Err(code(r));
        }
        Ok(())
    }
    pub fn fill_witness(&mut self, witness: &[u8]) -> Result<(), i32> {
        self._wit = witness.to_vec();
        let mut ws = CBitstream::from(self._wit.as_slice());
        let r = unsafe { simplicity_fillWitnessData(self.dag, self.type_dag, self.len as c_size_t, &mut ws) };
        if r != SimplicityErr::NoError {
            return Err(code(r));
        }
        let c = unsafe { simplicity_closeBitstream(&mut ws) };
        if c < 0 {
            // map program-stream close codes to the witness ones the C API uses
            return Err(c);
        }
        Ok(())
    }
    pub fn node(&self, i: usize) -> &CDagNode {
        unsafe { &*self.dag.add(i) }
    }
    pub fn root_cmr(&self) -> [u8; 32] {
        midstate_bytes(&self.node(self.len - 1).cmr)
    }
    /// (source type index, target type index) of node i (valid after infer)
    pub fn types_of(&self, i: usize) -> (usize, usize) {
        let t = unsafe { self.node(i).aux_types.types };
        (t[0], t[1])
    }
    pub fn ty(&self, ix: usize) -> &CType {
        unsafe { &*self.type_dag.add(ix) }
    }
    pub fn is_one_one(&self) -> bool {
        let (s, t) = self.types_of(self.len - 1);
        s == 0 && t == 0
    }
    /// AMR, IHR (with the uniqueness check) and the unbounded cost analysis
    pub fn analyse(&mut self) -> Result<CRoots, i32> {
        let mut analyses = vec![CAnalyses::default(); self.len];
        unsafe { simplicity_computeAnnotatedMerkleRoot(analyses.as_mut_ptr(), self.dag, self.type_dag, self.len) };
        let amr = midstate_bytes(&analyses[self.len - 1].annotated_merkle_root);
        let mut ihr = CSha256Midstate::default();
        let r = unsafe { simplicity_verifyNoDuplicateIdentityHashes(&mut ihr, self.dag, self.type_dag, self.len) };
        if r != SimplicityErr::NoError {
            return Err(code(r));
        }
        let (mut cells, mut words, mut frames, mut cost): (ubounded, ubounded, ubounded, ubounded) = (0, 0, 0, 0);
        let r = unsafe { simplicity_analyseBounds(&mut cells, &mut words, &mut frames, &mut cost, UBOUNDED_MAX, 0, UBOUNDED_MAX, self.dag, self.type_dag, self.len) };
        if r != SimplicityErr::NoError {
            return Err(code(r));
        }
        Ok(CRoots { cmr: self.root_cmr(), amr, ihr: midstate_bytes(&ihr), cost, cells, frames })
    }
    /// Run the C Bit Machine on an expression of type 1 -> B and return the error code and, on
    /// success, the `out_bits` output bits.
    pub fn eval_output(&mut self, env: Option<&CElementsTxEnv>, out_bits: usize) -> (i32, Vec<bool>) {
        use simplicity_sys::c_jets::frame_ffi::{c_readBit, CFrameItem};
        let envp = env.map(|e| e as *const _).unwrap_or(ptr::null());
        let words = simplicity_sys::c_jets::uword_width(out_bits).max(1);
        let mut buf: Vec<UWORD> = vec![0; words];
        let code = unsafe { c_evalTCOExpression(CHECK_NONE, buf.as_mut_ptr(), ptr::null(), self.dag, self.type_dag, self.len, 0, ptr::null(), envp) };
        let mut bits = vec![];
        if code == 0 {
            let mut frame = unsafe { CFrameItem::new_read(out_bits, buf.as_ptr()) };
            for _ in 0..out_bits {
                bits.push(unsafe { c_readBit(&mut frame) });
            }
        }
        (code, bits)
    }
    /// bit size of the root's target type (valid after infer)
    pub fn root_target_bits(&self) -> usize {
        let (_, t) = self.types_of(self.len - 1);
        self.ty(t).bit_size as usize
    }
    pub fn root_source_bits(&self) -> usize {
        let (s, _) = self.types_of(self.len - 1);
        self.ty(s).bit_size as usize
    }
    /// Run the C Bit Machine on a 1->1 program. Returns the C error code (0 = success).
    pub fn eval(&mut self, flags: c_uchar, env: Option<&CElementsTxEnv>) -> i32 {
        let envp = env.map(|e| e as *const _).unwrap_or(ptr::null());
        unsafe { c_evalTCOExpression(flags, ptr::null_mut(), ptr::null(), self.dag, self.type_dag, self.len, 0, ptr::null(), envp) }
    }
}

/// Outcome of the C pipeline up to "is a 1->1 program".
#[derive(Debug, Clone, Copy, PartialEq, Eq)]
pub enum CVerdict {
    Accept(CRoots),
    Reject(i32, &'static str),
}

/// same as c_check but without the 1->1 requirement (expressions)
pub fn c_check_expr(program: &[u8], witness: &[u8]) -> Result<CProg, (i32, &'static str)> {
    let mut p = CProg::decode(program).map_err(|c| (c, "decode"))?;
    p.infer().map_err(|c| (c, "infer"))?;
    p.fill_witness(witness).map_err(|c| (c, "witness"))?;
    p.analyse().map_err(|c| (c, "analyse"))?;
    Ok(p)
}

/// decode, infer, fill witness, roots, cost, 1->1 - the stages RedeemNode::decode corresponds to.
pub fn c_check(program: &[u8], witness: &[u8]) -> (CVerdict, Option<CProg>) {
    let mut p = match CProg::decode(program) {
        Ok(p) => p,
        Err(c) => return (CVerdict::Reject(c, "decode"), None),
    };
    if let Err(c) = p.infer() {
        return (CVerdict::Reject(c, "infer"), None);
    }
    if let Err(c) = p.fill_witness(witness) {
        return (CVerdict::Reject(c, "witness"), None);
    }
    let roots = match p.analyse() {
        Ok(r) => r,
        Err(c) => return (CVerdict::Reject(c, "analyse"), None),
    };
    if !p.is_one_one() {
        return (CVerdict::Reject(-22, "one-one"), None);
    }
    (CVerdict::Accept(roots), Some(p))
}
