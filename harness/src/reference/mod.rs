pub mod bits;
pub mod tyval;
