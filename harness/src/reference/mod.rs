pub mod bits;
pub mod merkle;
pub mod sha;
pub mod tyval;
pub mod unify;
