pub mod bits;
