pub mod bits;
pub mod codec;
pub mod cpipe;
pub mod merkle;
pub mod sha;
pub mod tyval;
pub mod unify;
