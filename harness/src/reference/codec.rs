//! Independent bit-level codec for node lists (natural-number code, tags, back-references),
//! written from the serialization format, sharing no code with src/bit_encoding.
//! Jets are atoms: their code words are taken from the jet tables (validated against C in C14).

use super::bits::*;
use crate::space::dag::Fam;
use simplicity::BitWriter;
use std::collections::HashMap;

#[derive(Clone, Debug, PartialEq, Eq, Hash)]
pub enum WNode {
    Comp(usize, usize),
    Case(usize, usize),
    Pair(usize, usize),
    Disc(usize, usize),
    InjL(usize),
    InjR(usize),
    Take(usize),
    Drop(usize),
    Disc1(usize),
    Iden,
    Unit,
    Fail([u8; 64]),
    Witness,
    Hidden([u8; 32]),
    Jet(u16),
    /// n (word has 2^n bits), bits MSB first
    Word(u8, Vec<bool>),
}

pub struct JetCodes {
    pub fam: Fam,
    pub code: Vec<Vec<bool>>,
    pub by_code: HashMap<Vec<bool>, u16>,
    pub max_len: usize,
}

impl JetCodes {
    pub fn new(fam: Fam) -> Self {
        let mut code = vec![];
        let mut by_code = HashMap::new();
        let mut max_len = 0;
        for j in 0..fam.n_jets() as u16 {
            let jet = fam.jet(j);
            let mut sink: Vec<u8> = vec![];
            let n = {
                let mut w = BitWriter::new(&mut sink as &mut dyn std::io::Write);
                let n = jet.encode(&mut w).unwrap();
                w.flush_all().unwrap();
                n
            };
            let bits = bytes_to_bits(&sink)[..n].to_vec();
            max_len = max_len.max(bits.len());
            by_code.insert(bits.clone(), j);
            code.push(bits);
        }
        JetCodes { fam, code, by_code, max_len }
    }
}

fn push_bits(out: &mut Vec<bool>, v: u32, n: usize) {
    for i in (0..n).rev() {
        out.push(v >> i & 1 == 1);
    }
}

pub fn ref_encode(nodes: &[WNode], jets: &JetCodes) -> Vec<bool> {
    let mut out = ref_encode_natural(nodes.len() as u64);
    for (idx, n) in nodes.iter().enumerate() {
        let back = |out: &mut Vec<bool>, i: usize| out.extend(ref_encode_natural((idx - i) as u64));
        match n {
            WNode::Comp(i, j) | WNode::Case(i, j) | WNode::Pair(i, j) | WNode::Disc(i, j) => {
                let sub = match n {
                    WNode::Comp(..) => 0,
                    WNode::Case(..) => 1,
                    WNode::Pair(..) => 2,
                    _ => 3,
                };
                push_bits(&mut out, 0b000, 3);
                push_bits(&mut out, sub, 2);
                back(&mut out, *i);
                back(&mut out, *j);
            }
            WNode::InjL(i) | WNode::InjR(i) | WNode::Take(i) | WNode::Drop(i) => {
                let sub = match n {
                    WNode::InjL(..) => 0,
                    WNode::InjR(..) => 1,
                    WNode::Take(..) => 2,
                    _ => 3,
                };
                push_bits(&mut out, 0b001, 3);
                push_bits(&mut out, sub, 2);
                back(&mut out, *i);
            }
            WNode::Iden => push_bits(&mut out, 0b01000, 5),
            WNode::Unit => push_bits(&mut out, 0b01001, 5),
            WNode::Fail(e) => {
                push_bits(&mut out, 0b01010, 5);
                out.extend(bytes_to_bits(e));
            }
            WNode::Disc1(i) => {
                push_bits(&mut out, 0b01011, 5);
                back(&mut out, *i);
            }
            WNode::Hidden(h) => {
                push_bits(&mut out, 0b0110, 4);
                out.extend(bytes_to_bits(h));
            }
            WNode::Witness => push_bits(&mut out, 0b0111, 4),
            WNode::Jet(j) => {
                push_bits(&mut out, 0b11, 2);
                out.extend(jets.code[*j as usize].iter().copied());
            }
            WNode::Word(k, bits) => {
                push_bits(&mut out, 0b10, 2);
                out.extend(ref_encode_natural(*k as u64 + 1));
                out.extend(bits.iter().copied());
            }
        }
    }
    out
}

#[derive(Debug, Clone, PartialEq, Eq)]
pub enum RefDecErr {
    Eos,
    BadNatural,
    BadIndex,
    BadJet,
    BadWord,
}

/// Decode a node list. Returns the nodes and the number of bits consumed. Purely syntactic:
/// no canonical-order, sharing or typing checks.
pub fn ref_decode(bits: &[bool], jets: &JetCodes) -> Result<(Vec<WNode>, usize), RefDecErr> {
    let mut pos = 0usize;
    fn nat(bits: &[bool], pos: &mut usize) -> Result<u64, RefDecErr> {
        match ref_decode_natural(bits, *pos) {
            RefNat::Ok(n, used) => {
                *pos += used;
                if n >= 1 << 31 {
                    Err(RefDecErr::BadNatural)
                } else {
                    Ok(n as u64)
                }
            }
            RefNat::Eos => Err(RefDecErr::Eos),
            RefNat::Huge => Err(RefDecErr::BadNatural),
        }
    }
    fn take(bits: &[bool], pos: &mut usize, n: usize) -> Result<u32, RefDecErr> {
        let mut v = 0;
        for _ in 0..n {
            let b = *bits.get(*pos).ok_or(RefDecErr::Eos)?;
            *pos += 1;
            v = 2 * v + b as u32;
        }
        Ok(v)
    }
    fn bytes<const N: usize>(bits: &[bool], pos: &mut usize) -> Result<[u8; N], RefDecErr> {
        let mut o = [0u8; N];
        for b in o.iter_mut() {
            *b = take(bits, pos, 8)? as u8;
        }
        Ok(o)
    }
    let len = nat(bits, &mut pos)? as usize;
    let mut nodes = vec![];
    for idx in 0..len {
        let back = |pos: &mut usize| -> Result<usize, RefDecErr> {
            let d = nat(bits, pos)? as usize;
            if d > idx {
                Err(RefDecErr::BadIndex)
            } else {
                Ok(idx - d)
            }
        };
        let node = if take(bits, &mut pos, 1)? == 1 {
            if take(bits, &mut pos, 1)? == 1 {
                // jet: prefix-free code
                let mut cur = vec![];
                loop {
                    let b = *bits.get(pos).ok_or(RefDecErr::Eos)?;
                    pos += 1;
                    cur.push(b);
                    if let Some(j) = jets.by_code.get(&cur) {
                        break WNode::Jet(*j);
                    }
                    if cur.len() > jets.max_len {
                        return Err(RefDecErr::BadJet);
                    }
                }
            } else {
                let k = nat(bits, &mut pos)?;
                if k > 32 {
                    return Err(RefDecErr::BadWord);
                }
                let k = (k - 1) as u8;
                let n = 1usize << k;
                if pos + n > bits.len() {
                    return Err(RefDecErr::Eos);
                }
                let w = bits[pos..pos + n].to_vec();
                pos += n;
                WNode::Word(k, w)
            }
        } else {
            match take(bits, &mut pos, 2)? {
                0 => {
                    let sub = take(bits, &mut pos, 2)?;
                    let i = back(&mut pos)?;
                    let j = back(&mut pos)?;
                    match sub {
                        0 => WNode::Comp(i, j),
                        1 => WNode::Case(i, j),
                        2 => WNode::Pair(i, j),
                        _ => WNode::Disc(i, j),
                    }
                }
                1 => {
                    let sub = take(bits, &mut pos, 2)?;
                    let i = back(&mut pos)?;
                    match sub {
                        0 => WNode::InjL(i),
                        1 => WNode::InjR(i),
                        2 => WNode::Take(i),
                        _ => WNode::Drop(i),
                    }
                }
                2 => match take(bits, &mut pos, 2)? {
                    0 => WNode::Iden,
                    1 => WNode::Unit,
                    2 => WNode::Fail(bytes::<64>(bits, &mut pos)?),
                    _ => WNode::Disc1(back(&mut pos)?),
                },
                _ => {
                    if take(bits, &mut pos, 1)? == 1 {
                        WNode::Witness
                    } else {
                        WNode::Hidden(bytes::<32>(bits, &mut pos)?)
                    }
                }
            }
        };
        nodes.push(node);
    }
    Ok((nodes, pos))
}
