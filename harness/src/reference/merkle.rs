//! Reference Merkle roots: IVs recomputed from the tag strings, CMR / TMR by the published formulas.

use super::sha::*;
use super::tyval::RT;
use std::collections::HashMap;

pub type H = [u8; 32];

fn iv(cache: &mut HashMap<String, [u32; 8]>, tag: &str) -> [u32; 8] {
    *cache.entry(tag.to_string()).or_insert_with(|| tag_iv(tag.as_bytes()))
}

#[derive(Default)]
pub struct Merkle {
    ivs: HashMap<String, [u32; 8]>,
    tmr: HashMap<RT, H>,
}

const Z: H = [0; 32];

impl Merkle {
    fn c(&mut self, what: &str) -> [u32; 8] {
        iv(&mut self.ivs, &format!("Simplicity\x1fCommitment\x1f{what}"))
    }
    pub fn cmr_leaf(&mut self, what: &str) -> H {
        state_bytes(self.c(what))
    }
    pub fn cmr_unary(&mut self, what: &str, child: &H) -> H {
        state_bytes(compress(self.c(what), &block(&Z, child)))
    }
    pub fn cmr_binary(&mut self, what: &str, l: &H, r: &H) -> H {
        state_bytes(compress(self.c(what), &block(l, r)))
    }
    pub fn cmr_fail(&mut self, entropy: &[u8; 64]) -> H {
        state_bytes(compress(self.c("fail"), entropy))
    }
    pub fn tmr(&mut self, t: &RT) -> H {
        if let Some(h) = self.tmr.get(t) {
            return *h;
        }
        let h = match t {
            RT::Unit => state_bytes(iv(&mut self.ivs, "Simplicity\x1fType\x1funit")),
            RT::Sum(a, b) => {
                let (a, b) = (self.tmr(a), self.tmr(b));
                state_bytes(compress(iv(&mut self.ivs, "Simplicity\x1fType\x1fsum"), &block(&a, &b)))
            }
            RT::Prod(a, b) => {
                let (a, b) = (self.tmr(a), self.tmr(b));
                state_bytes(compress(iv(&mut self.ivs, "Simplicity\x1fType\x1fprod"), &block(&a, &b)))
            }
        };
        self.tmr.insert(t.clone(), h);
        h
    }
    /// CMR of the word constant with 2^n bits (given MSB first): the identity root of the
    /// equivalent scribe expression, wrapped as a jet of weight = number of bits.
    pub fn cmr_word(&mut self, n: usize, bits: &[bool]) -> H {
        assert_eq!(bits.len(), 1 << n);
        let unit = self.cmr_leaf("unit");
        let b0 = self.cmr_unary("injl", &unit);
        let b1 = self.cmr_unary("injr", &unit);
        let mut level: Vec<H> = bits.iter().map(|b| if *b { b1 } else { b0 }).collect();
        while level.len() > 1 {
            level = level.chunks(2).map(|p| self.cmr_binary("pair", &p[0], &p[1])).collect();
        }
        let scribe = level[0];
        let id = iv(&mut self.ivs, "Simplicity\x1fIdentity");
        let pass1 = compress(id, &block(&Z, &scribe));
        let t_unit = self.tmr(&RT::Unit);
        let t_word = self.tmr(&RT::word(n));
        let pass2 = compress(pass1, &block(&t_unit, &t_word));
        let mut w = [0u8; 32];
        w[24..].copy_from_slice(&(bits.len() as u64).to_be_bytes());
        let jet = iv(&mut self.ivs, "Simplicity\x1fJet");
        state_bytes(compress(jet, &block(&w, &state_bytes(pass2))))
    }
}
