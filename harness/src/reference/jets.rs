//! Hand-written semantics of arithmetic / logic / comparison jets on flat bit strings.
//! All these jets have source and target types built from products of bits only, so a value is
//! its bit string (MSB first). Each entry is itself checked exhaustively against the C jet on
//! 8-bit operands by C05's jet leg.

fn to_u(bits: &[bool]) -> u128 {
    bits.iter().fold(0u128, |a, b| a << 1 | *b as u128)
}
fn from_u(v: u128, n: usize) -> Vec<bool> {
    (0..n).rev().map(|i| v >> i & 1 == 1).collect()
}
fn mask(n: usize) -> u128 {
    if n >= 128 {
        u128::MAX
    } else {
        (1u128 << n) - 1
    }
}

/// Some(f) if the reference knows the jet. f: input bits -> None (jet fails) | Some(output bits)
pub fn jet_semantics(name: &str) -> Option<Box<dyn Fn(&[bool]) -> Option<Vec<bool>>>> {
    // split "<base>_<n>"
    let (base, n): (&str, usize) = match name.rsplit_once('_') {
        Some((b, w)) => match w.parse() {
            Ok(n) => (b, n),
            Err(_) => (name, 0),
        },
        None => (name, 0),
    };
    if name == "eq_256" {
        return Some(Box::new(|i| Some(vec![i[..256] == i[256..]])));
    }
    if name == "verify" {
        return Some(Box::new(|i| if i[0] { Some(vec![]) } else { None }));
    }
    if ![1usize, 8, 16, 32, 64].contains(&n) {
        return None;
    }
    let two = move |i: &[bool]| (to_u(&i[..n]), to_u(&i[n..2 * n]));
    let three = move |i: &[bool]| (to_u(&i[..n]), to_u(&i[n..2 * n]), to_u(&i[2 * n..3 * n]));
    let bit = |b: bool| vec![b];
    let f: Box<dyn Fn(&[bool]) -> Option<Vec<bool>>> = match base {
        "low" => Box::new(move |_| Some(vec![false; n])),
        "high" => Box::new(move |_| Some(vec![true; n])),
        "one" if n > 1 => Box::new(move |_| Some(from_u(1, n))),
        "complement" => Box::new(move |i| Some(i.iter().map(|b| !b).collect())),
        "and" => Box::new(move |i| { let (a, b) = two(i); Some(from_u(a & b, n)) }),
        "or" => Box::new(move |i| { let (a, b) = two(i); Some(from_u(a | b, n)) }),
        "xor" => Box::new(move |i| { let (a, b) = two(i); Some(from_u(a ^ b, n)) }),
        "maj" => Box::new(move |i| { let (a, b, c) = three(i); Some(from_u((a & b) | (a & c) | (b & c), n)) }),
        "xor_xor" => Box::new(move |i| { let (a, b, c) = three(i); Some(from_u(a ^ b ^ c, n)) }),
        "ch" => Box::new(move |i| { let (a, b, c) = three(i); Some(from_u((a & b) | (!a & c & mask(n)), n)) }),
        "some" => Box::new(move |i| Some(bit(to_u(i) != 0))),
        "all" => Box::new(move |i| Some(bit(to_u(i) == mask(n)))),
        "eq" => Box::new(move |i| { let (a, b) = two(i); Some(bit(a == b)) }),
        "is_zero" if n > 1 => Box::new(move |i| Some(bit(to_u(i) == 0))),
        "is_one" if n > 1 => Box::new(move |i| Some(bit(to_u(i) == 1))),
        "le" if n > 1 => Box::new(move |i| { let (a, b) = two(i); Some(bit(a <= b)) }),
        "lt" if n > 1 => Box::new(move |i| { let (a, b) = two(i); Some(bit(a < b)) }),
        "min" if n > 1 => Box::new(move |i| { let (a, b) = two(i); Some(from_u(a.min(b), n)) }),
        "max" if n > 1 => Box::new(move |i| { let (a, b) = two(i); Some(from_u(a.max(b), n)) }),
        "median" if n > 1 => Box::new(move |i| { let (a, b, c) = three(i); let mut v = [a, b, c]; v.sort(); Some(from_u(v[1], n)) }),
        "add" if n > 1 => Box::new(move |i| { let (a, b) = two(i); Some(from_u(a + b, n + 1)) }),
        "full_add" if n > 1 => Box::new(move |i| { let c = i[0] as u128; let (a, b) = (to_u(&i[1..1 + n]), to_u(&i[1 + n..1 + 2 * n])); Some(from_u(a + b + c, n + 1)) }),
        "increment" if n > 1 => Box::new(move |i| Some(from_u(to_u(i) + 1, n + 1))),
        "full_increment" if n > 1 => Box::new(move |i| Some(from_u(to_u(&i[1..]) + i[0] as u128, n + 1))),
        "subtract" if n > 1 => Box::new(move |i| { let (a, b) = two(i); let mut o = bit(a < b); o.extend(from_u(a.wrapping_sub(b) & mask(n), n)); Some(o) }),
        "full_subtract" if n > 1 => Box::new(move |i| { let c = i[0] as u128; let (a, b) = (to_u(&i[1..1 + n]), to_u(&i[1 + n..1 + 2 * n])); let mut o = bit(a < b + c); o.extend(from_u(a.wrapping_sub(b).wrapping_sub(c) & mask(n), n)); Some(o) }),
        "decrement" if n > 1 => Box::new(move |i| { let a = to_u(i); let mut o = bit(a == 0); o.extend(from_u(a.wrapping_sub(1) & mask(n), n)); Some(o) }),
        "full_decrement" if n > 1 => Box::new(move |i| { let c = i[0] as u128; let a = to_u(&i[1..]); let mut o = bit(a < c); o.extend(from_u(a.wrapping_sub(c) & mask(n), n)); Some(o) }),
        "negate" if n > 1 => Box::new(move |i| { let a = to_u(i); let mut o = bit(a != 0); o.extend(from_u(0u128.wrapping_sub(a) & mask(n), n)); Some(o) }),
        "multiply" if n > 1 => Box::new(move |i| { let (a, b) = two(i); Some(from_u(a * b, 2 * n)) }),
        "full_multiply" if n > 1 && n < 64 => Box::new(move |i| { let (a, b) = two(i); let (c, d) = (to_u(&i[2 * n..3 * n]), to_u(&i[3 * n..4 * n])); Some(from_u(a * b + c + d, 2 * n)) }),
        "full_multiply" if n == 64 => Box::new(move |i| {
            let (a, b) = two(i);
            let (c, d) = (to_u(&i[2 * n..3 * n]), to_u(&i[3 * n..4 * n]));
            // a*b + c + d < 2^128 always
            Some(from_u(a * b + c + d, 128))
        }),
        "div_mod" if n > 1 => Box::new(move |i| { let (a, b) = two(i); let (q, r) = if b == 0 { (0, a) } else { (a / b, a % b) }; let mut o = from_u(q, n); o.extend(from_u(r, n)); Some(o) }),
        "divide" if n > 1 => Box::new(move |i| { let (a, b) = two(i); Some(from_u(if b == 0 { 0 } else { a / b }, n)) }),
        "modulo" if n > 1 => Box::new(move |i| { let (a, b) = two(i); Some(from_u(if b == 0 { a } else { a % b }, n)) }),
        "divides" if n > 1 => Box::new(move |i| { let (a, b) = two(i); Some(bit(if a == 0 { b == 0 } else { b % a == 0 })) }),
        _ => return None,
    };
    Some(f)
}
