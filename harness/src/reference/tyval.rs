//! Reference types and values: plain trees, width / padding / compact / padded bits by the
//! two-line definitions of the Tech Report. Shares no code with value.rs / final_data.rs.
//! Conversion *from* library values uses only the public accessors; conversion *to* library
//! values only the public constructors.

use simplicity::types::{CompleteBound, Final};
use simplicity::{Value, ValueRef};
use std::fmt;
use std::rc::Rc;
use std::sync::Arc;

#[derive(Clone, PartialEq, Eq, Hash, PartialOrd, Ord)]
pub enum RT {
    Unit,
    Sum(Rc<RT>, Rc<RT>),
    Prod(Rc<RT>, Rc<RT>),
}

impl RT {
    /// Some(n) if the type is the word type 2^(2^n)
    pub fn as_word(&self) -> Option<usize> {
        match self {
            RT::Sum(a, b) if **a == RT::Unit && **b == RT::Unit => Some(0),
            RT::Prod(a, b) if Rc::ptr_eq(a, b) || a == b => a.as_word().map(|n| n + 1),
            _ => None,
        }
    }
}

impl fmt::Display for RT {
    fn fmt(&self, f: &mut fmt::Formatter) -> fmt::Result {
        if let Some(n) = self.as_word() {
            if n > 0 {
                return write!(f, "2^{}", 1u64 << n);
            }
        }
        match self {
            RT::Unit => f.write_str("1"),
            RT::Sum(a, b) => {
                if **a == RT::Unit && **b == RT::Unit {
                    f.write_str("2")
                } else {
                    write!(f, "({a}+{b})")
                }
            }
            RT::Prod(a, b) => write!(f, "({a}*{b})"),
        }
    }
}
impl fmt::Debug for RT {
    fn fmt(&self, f: &mut fmt::Formatter) -> fmt::Result {
        fmt::Display::fmt(self, f)
    }
}

impl RT {
    pub fn unit() -> Rc<RT> {
        Rc::new(RT::Unit)
    }
    pub fn sum(a: &Rc<RT>, b: &Rc<RT>) -> Rc<RT> {
        Rc::new(RT::Sum(a.clone(), b.clone()))
    }
    pub fn prod(a: &Rc<RT>, b: &Rc<RT>) -> Rc<RT> {
        Rc::new(RT::Prod(a.clone(), b.clone()))
    }
    pub fn bit() -> Rc<RT> {
        RT::sum(&RT::unit(), &RT::unit())
    }
    /// 2^(2^n)
    pub fn word(n: usize) -> Rc<RT> {
        let mut t = RT::bit();
        for _ in 0..n {
            t = RT::prod(&t, &t);
        }
        t
    }
    /// bit width: 0; 1 + max; sum
    pub fn width(&self) -> u128 {
        match self {
            RT::Unit => 0,
            RT::Sum(a, b) => 1 + a.width().max(b.width()),
            RT::Prod(a, b) => a.width() + b.width(),
        }
    }
    pub fn size(&self) -> usize {
        match self {
            RT::Unit => 0,
            RT::Sum(a, b) | RT::Prod(a, b) => 1 + a.size() + b.size(),
        }
    }
    pub fn has_padding(&self) -> bool {
        match self {
            RT::Unit => false,
            RT::Sum(a, b) => a.width() != b.width() || a.has_padding() || b.has_padding(),
            RT::Prod(a, b) => a.has_padding() || b.has_padding(),
        }
    }
    /// number of values (saturating)
    pub fn cardinality(&self) -> u128 {
        match self {
            RT::Unit => 1,
            RT::Sum(a, b) => a.cardinality().saturating_add(b.cardinality()),
            RT::Prod(a, b) => a.cardinality().saturating_mul(b.cardinality()),
        }
    }
    pub fn to_final(&self) -> Arc<Final> {
        match self {
            RT::Unit => Final::unit(),
            RT::Sum(a, b) => Final::sum(a.to_final(), b.to_final()),
            RT::Prod(a, b) => Final::product(a.to_final(), b.to_final()),
        }
    }
    pub fn from_final(f: &Final) -> Rc<RT> {
        // memoise on pointer-free structure: words are deep but narrow DAGs, so recurse with a cache on TMR
        fn go(f: &Final, cache: &mut std::collections::HashMap<[u8; 32], Rc<RT>>) -> Rc<RT> {
            let key = f.tmr().to_byte_array();
            if let Some(t) = cache.get(&key) {
                return t.clone();
            }
            let t = match f.bound() {
                CompleteBound::Unit => RT::unit(),
                CompleteBound::Sum(a, b) => {
                    let (a, b) = (go(a, cache), go(b, cache));
                    Rc::new(RT::Sum(a, b))
                }
                CompleteBound::Product(a, b) => {
                    let (a, b) = (go(a, cache), go(b, cache));
                    Rc::new(RT::Prod(a, b))
                }
            };
            cache.insert(key, t.clone());
            t
        }
        go(f, &mut Default::default())
    }
    /// a <= b in the pruning order: 1 <= T; component-wise on sums and products
    pub fn sub(&self, other: &RT) -> bool {
        match (self, other) {
            (RT::Unit, _) => true,
            (RT::Sum(a, b), RT::Sum(c, d)) => a.sub(c) && b.sub(d),
            (RT::Prod(a, b), RT::Prod(c, d)) => a.sub(c) && b.sub(d),
            _ => false,
        }
    }
}

#[derive(Clone, PartialEq, Eq, Hash, PartialOrd, Ord)]
pub enum RV {
    Unit,
    L(Rc<RV>),
    R(Rc<RV>),
    Pair(Rc<RV>, Rc<RV>),
}

impl fmt::Display for RV {
    fn fmt(&self, f: &mut fmt::Formatter) -> fmt::Result {
        match self {
            RV::Unit => f.write_str("()"),
            RV::L(a) => {
                if **a == RV::Unit {
                    f.write_str("0")
                } else {
                    write!(f, "L{a}")
                }
            }
            RV::R(a) => {
                if **a == RV::Unit {
                    f.write_str("1")
                } else {
                    write!(f, "R{a}")
                }
            }
            RV::Pair(a, b) => write!(f, "({a},{b})"),
        }
    }
}
impl fmt::Debug for RV {
    fn fmt(&self, f: &mut fmt::Formatter) -> fmt::Result {
        fmt::Display::fmt(self, f)
    }
}

impl RV {
    pub fn unit() -> Rc<RV> {
        Rc::new(RV::Unit)
    }
    pub fn l(a: &Rc<RV>) -> Rc<RV> {
        Rc::new(RV::L(a.clone()))
    }
    pub fn r(a: &Rc<RV>) -> Rc<RV> {
        Rc::new(RV::R(a.clone()))
    }
    pub fn pair(a: &Rc<RV>, b: &Rc<RV>) -> Rc<RV> {
        Rc::new(RV::Pair(a.clone(), b.clone()))
    }
    pub fn bit(b: bool) -> Rc<RV> {
        if b {
            RV::r(&RV::unit())
        } else {
            RV::l(&RV::unit())
        }
    }
    /// big-endian word of 2^n bits from the low bits of x
    pub fn word(n: usize, x: u128) -> Rc<RV> {
        fn go(n: usize, x: u128, hi: usize) -> Rc<RV> {
            // value made of bits [hi-2^n, hi) of x
            if n == 0 {
                RV::bit(x >> (hi - 1) & 1 == 1)
            } else {
                let half = 1usize << (n - 1);
                RV::pair(&go(n - 1, x, hi), &go(n - 1, x, hi - half))
            }
        }
        go(n, x, 1 << n)
    }
    /// word from bytes (2^n bits, n >= 3)
    pub fn word_bytes(bytes: &[u8]) -> Rc<RV> {
        let bits: Vec<bool> = crate::reference::bits::bytes_to_bits(bytes);
        fn go(bits: &[bool]) -> Rc<RV> {
            if bits.len() == 1 {
                RV::bit(bits[0])
            } else {
                let (a, b) = bits.split_at(bits.len() / 2);
                RV::pair(&go(a), &go(b))
            }
        }
        go(&bits)
    }
    pub fn is_of(&self, t: &RT) -> bool {
        match (self, t) {
            (RV::Unit, RT::Unit) => true,
            (RV::L(a), RT::Sum(ta, _)) => a.is_of(ta),
            (RV::R(b), RT::Sum(_, tb)) => b.is_of(tb),
            (RV::Pair(a, b), RT::Prod(ta, tb)) => a.is_of(ta) && b.is_of(tb),
            _ => false,
        }
    }
    /// compact encoding: tag bits and leaf data only
    pub fn compact_bits(&self, out: &mut Vec<bool>) {
        match self {
            RV::Unit => {}
            RV::L(a) => {
                out.push(false);
                a.compact_bits(out)
            }
            RV::R(b) => {
                out.push(true);
                b.compact_bits(out)
            }
            RV::Pair(a, b) => {
                a.compact_bits(out);
                b.compact_bits(out)
            }
        }
    }
    pub fn compact(&self) -> Vec<bool> {
        let mut v = vec![];
        self.compact_bits(&mut v);
        v
    }
    /// padded encoding: Some(bit) for data, None for padding positions
    pub fn padded_bits(&self, t: &RT, out: &mut Vec<Option<bool>>) {
        match (self, t) {
            (RV::Unit, RT::Unit) => {}
            (RV::L(a), RT::Sum(ta, tb)) => {
                out.push(Some(false));
                let pad = ta.width().max(tb.width()) - ta.width();
                for _ in 0..pad {
                    out.push(None);
                }
                a.padded_bits(ta, out);
            }
            (RV::R(b), RT::Sum(ta, tb)) => {
                out.push(Some(true));
                let pad = ta.width().max(tb.width()) - tb.width();
                for _ in 0..pad {
                    out.push(None);
                }
                b.padded_bits(tb, out);
            }
            (RV::Pair(a, b), RT::Prod(ta, tb)) => {
                a.padded_bits(ta, out);
                b.padded_bits(tb, out);
            }
            _ => panic!("reference value {self} is not of type {t}"),
        }
    }
    pub fn padded(&self, t: &RT) -> Vec<Option<bool>> {
        let mut v = vec![];
        self.padded_bits(t, &mut v);
        v
    }
    /// padded encoding with a chosen fill for the padding positions
    pub fn padded_fill(&self, t: &RT, fill: bool) -> Vec<bool> {
        self.padded(t).into_iter().map(|b| b.unwrap_or(fill)).collect()
    }
    /// Build the library value through the public constructors only.
    pub fn to_value(&self, t: &RT) -> Value {
        match (self, t) {
            (RV::Unit, RT::Unit) => Value::unit(),
            (RV::L(a), RT::Sum(ta, tb)) => Value::left(a.to_value(ta), tb.to_final()),
            (RV::R(b), RT::Sum(ta, tb)) => Value::right(ta.to_final(), b.to_value(tb)),
            (RV::Pair(a, b), RT::Prod(ta, tb)) => Value::product(a.to_value(ta), b.to_value(tb)),
            _ => panic!("reference value {self} is not of type {t}"),
        }
    }
    /// Read a library value back through the public accessors only.
    /// Err describes the first inconsistency (an accessor that refuses although the type allows it).
    pub fn from_value(v: &Value) -> Result<Rc<RV>, String> {
        Self::from_ref(v.as_ref(), v.ty())
    }
    pub fn from_ref(v: ValueRef, ty: &Final) -> Result<Rc<RV>, String> {
        // iterative to survive deep words: explicit stack
        enum T<'a> {
            Go(ValueRef<'a>, &'a Final),
            MkL,
            MkR,
            MkP,
        }
        let mut st = vec![T::Go(v, ty)];
        let mut out: Vec<Rc<RV>> = vec![];
        while let Some(t) = st.pop() {
            match t {
                T::Go(v, ty) => match ty.bound() {
                    CompleteBound::Unit => {
                        if !v.is_unit() {
                            return Err("is_unit() false at a unit type".into());
                        }
                        out.push(RV::unit())
                    }
                    CompleteBound::Sum(a, b) => {
                        let (l, r) = (v.as_left(), v.as_right());
                        match (l, r) {
                            (Some(l), None) => {
                                st.push(T::MkL);
                                st.push(T::Go(l, a));
                            }
                            (None, Some(r)) => {
                                st.push(T::MkR);
                                st.push(T::Go(r, b));
                            }
                            (Some(_), Some(_)) => return Err("as_left and as_right both Some".into()),
                            (None, None) => return Err("as_left and as_right both None at a sum type".into()),
                        }
                        if v.as_product().is_some() {
                            return Err("as_product Some at a sum type".into());
                        }
                    }
                    CompleteBound::Product(a, b) => match v.as_product() {
                        Some((l, r)) => {
                            if v.as_left().is_some() || v.as_right().is_some() {
                                return Err("as_left/as_right Some at a product type".into());
                            }
                            st.push(T::MkP);
                            st.push(T::Go(r, b));
                            st.push(T::Go(l, a));
                        }
                        None => return Err("as_product None at a product type".into()),
                    },
                },
                T::MkL => {
                    let a = out.pop().unwrap();
                    out.push(Rc::new(RV::L(a)));
                }
                T::MkR => {
                    let a = out.pop().unwrap();
                    out.push(Rc::new(RV::R(a)));
                }
                T::MkP => {
                    let b = out.pop().unwrap();
                    let a = out.pop().unwrap();
                    out.push(Rc::new(RV::Pair(a, b)));
                }
            }
        }
        Ok(out.pop().unwrap())
    }
    /// decode from compact bits by the type (reference decoder)
    pub fn from_compact(t: &RT, bits: &[bool], pos: &mut usize) -> Option<Rc<RV>> {
        Some(match t {
            RT::Unit => RV::unit(),
            RT::Sum(a, b) => {
                let tag = *bits.get(*pos)?;
                *pos += 1;
                if tag {
                    RV::r(&RV::from_compact(b, bits, pos)?)
                } else {
                    RV::l(&RV::from_compact(a, bits, pos)?)
                }
            }
            RT::Prod(a, b) => {
                let x = RV::from_compact(a, bits, pos)?;
                let y = RV::from_compact(b, bits, pos)?;
                RV::pair(&x, &y)
            }
        })
    }
    /// decode from padded bits by the type (reference decoder)
    pub fn from_padded(t: &RT, bits: &[bool], pos: &mut usize) -> Option<Rc<RV>> {
        Some(match t {
            RT::Unit => RV::unit(),
            RT::Sum(a, b) => {
                let tag = *bits.get(*pos)?;
                *pos += 1;
                let w = a.width().max(b.width()) as usize;
                if tag {
                    *pos += w - b.width() as usize;
                    RV::r(&RV::from_padded(b, bits, pos)?)
                } else {
                    *pos += w - a.width() as usize;
                    RV::l(&RV::from_padded(a, bits, pos)?)
                }
            }
            RT::Prod(a, b) => {
                let x = RV::from_padded(a, bits, pos)?;
                let y = RV::from_padded(b, bits, pos)?;
                RV::pair(&x, &y)
            }
        })
    }
    /// reference pruning: Some iff the target is <= along the path the value takes
    pub fn prune(&self, from: &RT, to: &RT) -> Option<Rc<RV>> {
        match (self, from, to) {
            (_, _, RT::Unit) => Some(RV::unit()),
            (RV::L(a), RT::Sum(fa, _), RT::Sum(ta, _)) => Some(RV::l(&a.prune(fa, ta)?)),
            (RV::R(b), RT::Sum(_, fb), RT::Sum(_, tb)) => Some(RV::r(&b.prune(fb, tb)?)),
            (RV::Pair(a, b), RT::Prod(fa, fb), RT::Prod(ta, tb)) => Some(RV::pair(&a.prune(fa, ta)?, &b.prune(fb, tb)?)),
            _ => None,
        }
    }
    pub fn zero(t: &RT) -> Rc<RV> {
        match t {
            RT::Unit => RV::unit(),
            RT::Sum(a, _) => RV::l(&RV::zero(a)),
            RT::Prod(a, b) => RV::pair(&RV::zero(a), &RV::zero(b)),
        }
    }
}

/// All types with at most k sum/product constructors, smallest first.
pub fn types_upto(k: usize) -> Vec<Rc<RT>> {
    let mut by_size: Vec<Vec<Rc<RT>>> = vec![vec![RT::unit()]];
    for s in 1..=k {
        let mut v = vec![];
        for ls in 0..s {
            let rs = s - 1 - ls;
            for a in &by_size[ls] {
                for b in &by_size[rs] {
                    v.push(RT::sum(a, b));
                    v.push(RT::prod(a, b));
                }
            }
        }
        by_size.push(v);
    }
    by_size.into_iter().flatten().collect()
}

/// All values of a type, up to `cap`; returns (values, complete?).
pub fn values_of(t: &RT, cap: usize) -> (Vec<Rc<RV>>, bool) {
    match t {
        RT::Unit => (vec![RV::unit()], true),
        RT::Sum(a, b) => {
            let (va, ca) = values_of(a, cap);
            let (vb, cb) = values_of(b, cap);
            let mut v: Vec<Rc<RV>> = va.iter().map(RV::l).collect();
            v.extend(vb.iter().map(RV::r));
            let complete = ca && cb && v.len() <= cap;
            v.truncate(cap);
            (v, complete)
        }
        RT::Prod(a, b) => {
            let (va, ca) = values_of(a, cap);
            let (vb, cb) = values_of(b, cap);
            let mut v = vec![];
            let mut complete = ca && cb;
            'o: for x in &va {
                for y in &vb {
                    if v.len() >= cap {
                        complete = false;
                        break 'o;
                    }
                    v.push(RV::pair(x, y));
                }
            }
            (v, complete)
        }
    }
}

/// Corner values for wide types: all-left/zero, all-right/ones, alternating, and the
/// first few from exhaustive enumeration.
pub fn corner_values(t: &RT) -> Vec<Rc<RV>> {
    fn fill(t: &RT, f: &mut dyn FnMut() -> bool) -> Rc<RV> {
        match t {
            RT::Unit => RV::unit(),
            RT::Sum(a, b) => {
                if f() {
                    RV::r(&fill(b, f))
                } else {
                    RV::l(&fill(a, f))
                }
            }
            RT::Prod(a, b) => {
                let x = fill(a, f);
                let y = fill(b, f);
                RV::pair(&x, &y)
            }
        }
    }
    let mut v = vec![];
    v.push(fill(t, &mut || false));
    v.push(fill(t, &mut || true));
    let mut i = 0;
    v.push(fill(t, &mut || {
        i += 1;
        i % 2 == 0
    }));
    let mut j = 0;
    v.push(fill(t, &mut || {
        j += 1;
        j % 2 == 1
    }));
    let mut k = 0;
    v.push(fill(t, &mut || {
        k += 1;
        k == 1
    }));
    // structured corners: the components of the top-level product tree (three levels deep), one of
    // them all ones and the others all zeros, and the other way round. (For the hash-context and
    // buffer types of the jets, uniform patterns are always either empty or invalid.)
    fn components(t: &RT, depth: usize, path: &mut Vec<bool>, out: &mut Vec<Vec<bool>>) {
        match t {
            RT::Prod(a, b) if depth > 0 => {
                path.push(false);
                components(a, depth - 1, path, out);
                path.pop();
                path.push(true);
                components(b, depth - 1, path, out);
                path.pop();
            }
            _ => out.push(path.clone()),
        }
    }
    fn fill_at(t: &RT, path: &[bool], here: &[bool], inside: bool, outside: bool) -> Rc<RV> {
        // `here` is the path of the component to single out; `path` the path walked so far
        match t {
            RT::Prod(a, b) if path.len() < here.len() && here[..path.len()] == path[..] => {
                let mut pl = path.to_vec();
                pl.push(false);
                let mut pr = path.to_vec();
                pr.push(true);
                RV::pair(&fill_at(a, &pl, here, inside, outside), &fill_at(b, &pr, here, inside, outside))
            }
            _ => {
                let bit = if path == here { inside } else { outside };
                fill(t, &mut || bit)
            }
        }
    }
    let mut comps = vec![];
    components(t, 3, &mut vec![], &mut comps);
    if comps.len() > 1 {
        for c in &comps {
            v.push(fill_at(t, &[], c, true, false));
            v.push(fill_at(t, &[], c, false, true));
        }
    }
    v.sort();
    v.dedup();
    v
}

/// Types (with at most k constructors) on which the cached "has padding" flag of a node is decided by
/// exactly one of its children: sums whose arms are equally wide, and products, one child of which
/// has padding while the other has none. A wrong flag makes the compact decoder read such a type
/// in the padded layout; no smaller type can show that.
pub fn padding_flag_family(k: usize) -> Vec<Rc<RT>> {
    types_upto(k)
        .into_iter()
        .filter(|t| match &**t {
            RT::Unit => false,
            RT::Sum(a, b) => a.width() == b.width() && a.has_padding() != b.has_padding(),
            RT::Prod(a, b) => a.has_padding() != b.has_padding() && a.size() + b.size() <= 2,
        })
        .collect()
}
