//! Big-step semantics of Simplicity terms on reference values.

use super::jets::jet_semantics;
use super::tyval::*;
use std::rc::Rc;

#[derive(Clone, Debug, PartialEq, Eq)]
pub enum Tm {
    Iden,
    Unit,
    InjL(Rc<Term>),
    InjR(Rc<Term>),
    Take(Rc<Term>),
    Drop(Rc<Term>),
    Comp(Rc<Term>, Rc<Term>),
    Case(Rc<Term>, Rc<Term>),
    Pair(Rc<Term>, Rc<Term>),
    AssertL(Rc<Term>, u8),
    AssertR(u8, Rc<Term>),
    Witness(Rc<RV>),
    /// word of 2^n bits
    Word(u8, u64),
    Fail(u8),
    /// Core jet by name
    Jet(&'static str),
    Disconnect(Rc<Term>, Rc<Term>),
}

#[derive(Clone, Debug, PartialEq, Eq)]
pub struct Term {
    pub tm: Tm,
    pub src: Rc<RT>,
    pub tgt: Rc<RT>,
}

impl Term {
    pub fn new(tm: Tm, src: &Rc<RT>, tgt: &Rc<RT>) -> Rc<Term> {
        Rc::new(Term { tm, src: src.clone(), tgt: tgt.clone() })
    }
    pub fn size(&self) -> usize {
        match &self.tm {
            Tm::InjL(t) | Tm::InjR(t) | Tm::Take(t) | Tm::Drop(t) | Tm::AssertL(t, _) | Tm::AssertR(_, t) => 1 + t.size(),
            Tm::Comp(a, b) | Tm::Case(a, b) | Tm::Pair(a, b) | Tm::Disconnect(a, b) => 1 + a.size() + b.size(),
            _ => 1,
        }
    }
    pub fn render(&self) -> String {
        match &self.tm {
            Tm::Iden => "iden".into(),
            Tm::Unit => "unit".into(),
            Tm::InjL(t) => format!("injl({})", t.render()),
            Tm::InjR(t) => format!("injr({})", t.render()),
            Tm::Take(t) => format!("take({})", t.render()),
            Tm::Drop(t) => format!("drop({})", t.render()),
            Tm::Comp(a, b) => format!("comp[{}]({},{})", a.tgt, a.render(), b.render()),
            Tm::Case(a, b) => format!("case({},{})", a.render(), b.render()),
            Tm::Pair(a, b) => format!("pair({},{})", a.render(), b.render()),
            Tm::AssertL(a, h) => format!("assertl({},#{h})", a.render()),
            Tm::AssertR(h, a) => format!("assertr(#{h},{})", a.render()),
            Tm::Witness(v) => format!("witness[{v}:{}]", self.tgt),
            Tm::Word(n, v) => format!("word{}:{v:x}", 1u32 << n),
            Tm::Fail(e) => format!("fail#{e}"),
            Tm::Jet(j) => format!("jet:{j}"),
            Tm::Disconnect(a, b) => format!("disconnect({},{})", a.render(), b.render()),
        }
    }
    pub fn describe(&self) -> String {
        format!("{} : {} -> {}", self.render(), self.src, self.tgt)
    }
}

#[derive(Clone, Debug, PartialEq, Eq)]
pub enum Failure {
    Assert,
    FailNode,
    Jet,
}

/// bits of a value of a product-of-bits type
fn flat(v: &RV) -> Vec<bool> {
    v.compact()
}
fn unflat(t: &RT, bits: &[bool]) -> Rc<RV> {
    let mut pos = 0;
    let v = RV::from_compact(t, bits, &mut pos).expect("jet output has the width of its type");
    assert_eq!(pos, bits.len(), "jet output has the width of its type");
    v
}

/// `cmr_of`: commitment root of a term as a 256-bit word value (needed by disconnect)
pub fn eval(t: &Term, input: &Rc<RV>, cmr_of: &dyn Fn(&Term) -> [u8; 32]) -> Result<Rc<RV>, Failure> {
    Ok(match &t.tm {
        Tm::Iden => input.clone(),
        Tm::Unit => RV::unit(),
        Tm::InjL(s) => RV::l(&eval(s, input, cmr_of)?),
        Tm::InjR(s) => RV::r(&eval(s, input, cmr_of)?),
        Tm::Take(s) => match &**input {
            RV::Pair(a, _) => eval(s, a, cmr_of)?,
            _ => panic!("take on a non-pair"),
        },
        Tm::Drop(s) => match &**input {
            RV::Pair(_, b) => eval(s, b, cmr_of)?,
            _ => panic!("drop on a non-pair"),
        },
        Tm::Comp(a, b) => eval(b, &eval(a, input, cmr_of)?, cmr_of)?,
        Tm::Pair(a, b) => {
            let x = eval(a, input, cmr_of)?;
            let y = eval(b, input, cmr_of)?;
            RV::pair(&x, &y)
        }
        Tm::Case(a, b) => match &**input {
            RV::Pair(s, c) => match &**s {
                RV::L(x) => eval(a, &RV::pair(x, c), cmr_of)?,
                RV::R(y) => eval(b, &RV::pair(y, c), cmr_of)?,
                _ => panic!("case on a non-sum"),
            },
            _ => panic!("case on a non-pair"),
        },
        Tm::AssertL(a, _) => match &**input {
            RV::Pair(s, c) => match &**s {
                RV::L(x) => eval(a, &RV::pair(x, c), cmr_of)?,
                RV::R(_) => return Err(Failure::Assert),
                _ => panic!("assertl on a non-sum"),
            },
            _ => panic!("assertl on a non-pair"),
        },
        Tm::AssertR(_, b) => match &**input {
            RV::Pair(s, c) => match &**s {
                RV::R(y) => eval(b, &RV::pair(y, c), cmr_of)?,
                RV::L(_) => return Err(Failure::Assert),
                _ => panic!("assertr on a non-sum"),
            },
            _ => panic!("assertr on a non-pair"),
        },
        Tm::Witness(v) => v.clone(),
        Tm::Word(n, v) => RV::word(*n as usize, *v as u128),
        Tm::Fail(_) => return Err(Failure::FailNode),
        Tm::Jet(name) => {
            let f = jet_semantics(name).unwrap_or_else(|| panic!("no reference semantics for jet {name}"));
            match f(&flat(input)) {
                Some(bits) => unflat(&t.tgt, &bits),
                None => return Err(Failure::Jet),
            }
        }
        Tm::Disconnect(s, r) => {
            let h = RV::word_bytes(&cmr_of(r));
            let bc = eval(s, &RV::pair(&h, input), cmr_of)?;
            match &*bc {
                RV::Pair(b, c) => {
                    let d = eval(r, c, cmr_of)?;
                    RV::pair(b, &d)
                }
                _ => panic!("disconnect: left result is not a pair"),
            }
        }
    })
}

/// What the Bit Machine's `ExecTracker` is documented to see for one visited node.
#[derive(Clone, Debug, PartialEq, Eq)]
pub enum TOut {
    NonTerminal,
    JetFailed,
    Success(Rc<RV>),
}

#[derive(Clone, Debug, PartialEq, Eq)]
pub struct TraceEv {
    pub kind: &'static str,
    pub input: Rc<RV>,
    pub out: TOut,
}

impl std::fmt::Display for TraceEv {
    fn fmt(&self, f: &mut std::fmt::Formatter) -> std::fmt::Result {
        match &self.out {
            TOut::NonTerminal => write!(f, "{}({})", self.kind, self.input),
            TOut::JetFailed => write!(f, "{}({})=FAIL", self.kind, self.input),
            TOut::Success(v) => write!(f, "{}({})={}", self.kind, self.input, v),
        }
    }
}

/// Big-step semantics that also records, in execution (pre-)order, every sub-term that is evaluated together with
/// the value it is applied to and - for unit, iden, witness and jets - the value it returns. A node whose own
/// evaluation fails without running a child (fail, an assertion on its hidden side) is not recorded, a jet that
/// rejects its input is recorded as JetFailed: this is the tracker contract of bit_machine/tracker.rs.
pub fn eval_traced(t: &Term, input: &Rc<RV>, cmr_of: &dyn Fn(&Term) -> [u8; 32], tr: &std::cell::RefCell<Vec<TraceEv>>) -> Result<Rc<RV>, Failure> {
    let push = |kind: &'static str, out: TOut| tr.borrow_mut().push(TraceEv { kind, input: input.clone(), out });
    let split = |what: &str| -> (Rc<RV>, Rc<RV>) {
        match &**input {
            RV::Pair(a, b) => (a.clone(), b.clone()),
            _ => panic!("{what} on a non-pair"),
        }
    };
    Ok(match &t.tm {
        Tm::Iden => {
            push("iden", TOut::Success(input.clone()));
            input.clone()
        }
        Tm::Unit => {
            push("unit", TOut::Success(RV::unit()));
            RV::unit()
        }
        Tm::InjL(s) => {
            push("injl", TOut::NonTerminal);
            RV::l(&eval_traced(s, input, cmr_of, tr)?)
        }
        Tm::InjR(s) => {
            push("injr", TOut::NonTerminal);
            RV::r(&eval_traced(s, input, cmr_of, tr)?)
        }
        Tm::Take(s) => {
            push("take", TOut::NonTerminal);
            eval_traced(s, &split("take").0, cmr_of, tr)?
        }
        Tm::Drop(s) => {
            push("drop", TOut::NonTerminal);
            eval_traced(s, &split("drop").1, cmr_of, tr)?
        }
        Tm::Comp(a, b) => {
            push("comp", TOut::NonTerminal);
            let mid = eval_traced(a, input, cmr_of, tr)?;
            eval_traced(b, &mid, cmr_of, tr)?
        }
        Tm::Pair(a, b) => {
            push("pair", TOut::NonTerminal);
            let x = eval_traced(a, input, cmr_of, tr)?;
            let y = eval_traced(b, input, cmr_of, tr)?;
            RV::pair(&x, &y)
        }
        Tm::Case(a, b) => {
            push("case", TOut::NonTerminal);
            let (s, c) = split("case");
            match &*s {
                RV::L(x) => eval_traced(a, &RV::pair(x, &c), cmr_of, tr)?,
                RV::R(y) => eval_traced(b, &RV::pair(y, &c), cmr_of, tr)?,
                _ => panic!("case on a non-sum"),
            }
        }
        Tm::AssertL(a, _) => {
            let (s, c) = split("assertl");
            match &*s {
                RV::L(x) => {
                    push("assertl", TOut::NonTerminal);
                    eval_traced(a, &RV::pair(x, &c), cmr_of, tr)?
                }
                RV::R(_) => return Err(Failure::Assert),
                _ => panic!("assertl on a non-sum"),
            }
        }
        Tm::AssertR(_, b) => {
            let (s, c) = split("assertr");
            match &*s {
                RV::R(y) => {
                    push("assertr", TOut::NonTerminal);
                    eval_traced(b, &RV::pair(y, &c), cmr_of, tr)?
                }
                RV::L(_) => return Err(Failure::Assert),
                _ => panic!("assertr on a non-sum"),
            }
        }
        Tm::Witness(v) => {
            push("witness", TOut::Success(v.clone()));
            v.clone()
        }
        Tm::Word(n, v) => {
            push("word", TOut::NonTerminal);
            RV::word(*n as usize, *v as u128)
        }
        Tm::Fail(_) => return Err(Failure::FailNode),
        Tm::Jet(name) => {
            let f = jet_semantics(name).unwrap_or_else(|| panic!("no reference semantics for jet {name}"));
            match f(&flat(input)) {
                Some(bits) => {
                    let v = unflat(&t.tgt, &bits);
                    push("jet", TOut::Success(v.clone()));
                    v
                }
                None => {
                    push("jet", TOut::JetFailed);
                    return Err(Failure::Jet);
                }
            }
        }
        Tm::Disconnect(s, r) => {
            push("disconnect", TOut::NonTerminal);
            let h = RV::word_bytes(&cmr_of(r));
            let bc = eval_traced(s, &RV::pair(&h, input), cmr_of, tr)?;
            match &*bc {
                RV::Pair(b, c) => {
                    let d = eval_traced(r, c, cmr_of, tr)?;
                    RV::pair(b, &d)
                }
                _ => panic!("disconnect: left result is not a pair"),
            }
        }
    })
}
