//! Controlled scheduler over real OS threads (token passing). Exactly one managed thread runs at
//! a time; control changes hands only at the library's scheduling points (hook H2), at thread
//! start and at thread end. Stateless exploration with iterative preemption bounding.

use simplicity::verif_hooks::{manage_current_thread, set_sched_hook, SchedPoint};
use std::cell::Cell;
use std::panic::{catch_unwind, AssertUnwindSafe};
use std::sync::{Arc, Condvar, Mutex};

#[derive(Clone, Debug, PartialEq, Eq)]
pub struct PointRec {
    pub thread: usize,
    pub kind: &'static str,
    pub enabled: usize,
    pub chosen: usize,
    /// false at thread end and at spin points: switching away is forced, not a preemption
    pub running_enabled: bool,
}

struct State {
    n: usize,
    current: usize,
    finished: Vec<bool>,
    started: Vec<bool>,
    prefix: Vec<usize>,
    trace: Vec<PointRec>,
    horizon: usize,
    error: Option<String>,
    /// per thread: counters used to thin out very frequent point kinds
    thin: Vec<usize>,
    stride: usize,
    spin_streak: usize,
}

static STATE: Mutex<Option<State>> = Mutex::new(None);
static CV: Condvar = Condvar::new();

thread_local! {
    static MY_ID: Cell<usize> = const { Cell::new(usize::MAX) };
}

fn kind_name(k: SchedPoint) -> &'static str {
    match k {
        SchedPoint::ContextLock => "ctx-lock",
        SchedPoint::ContextLockSpin => "ctx-spin",
        SchedPoint::NewName => "new-name",
        SchedPoint::Precomputed => "precomputed",
        SchedPoint::NodeDrop => "node-drop",
        SchedPoint::IncompleteDrop => "incomplete-drop",
        SchedPoint::MachineStep => "machine-step",
        SchedPoint::JetCall => "jet-call",
        SchedPoint::JetReturn => "jet-return",
    }
}

/// enabled threads in canonical order: the running one first (if it may continue), then ascending ids
fn enabled(st: &State, me: usize, me_can_run: bool) -> Vec<usize> {
    let mut v = vec![];
    if me_can_run {
        v.push(me);
    }
    for t in 0..st.n {
        if t != me && !st.finished[t] {
            v.push(t);
        }
    }
    v
}

/// one decision point; returns after this thread holds the token again
fn decide(me: usize, kind: &'static str, me_can_run: bool, me_finished: bool) {
    let mut g = STATE.lock().unwrap_or_else(|e| e.into_inner());
    let st = match g.as_mut() {
        Some(s) => s,
        None => return,
    };
    if st.error.is_some() {
        // abort mode: let everybody run freely to the end
        st.current = usize::MAX;
        CV.notify_all();
        return;
    }
    let en = enabled(st, me, me_can_run);
    if en.is_empty() {
        // last thread finished
        st.current = usize::MAX;
        CV.notify_all();
        return;
    }
    if kind == "ctx-spin" {
        st.spin_streak += 1;
        if st.spin_streak > 10_000 {
            st.error = Some("livelock: only spinning threads are enabled".into());
            st.current = usize::MAX;
            CV.notify_all();
            return;
        }
    } else {
        st.spin_streak = 0;
    }
    let pos = st.trace.len();
    if pos >= st.horizon {
        st.error = Some(format!("horizon of {} scheduling points exceeded", st.horizon));
        st.current = usize::MAX;
        CV.notify_all();
        return;
    }
    let choice = if pos < st.prefix.len() {
        let c = st.prefix[pos];
        if c >= en.len() {
            st.error = Some(format!("replay divergence at point {pos}: choice {c} of {} enabled", en.len()));
            st.current = usize::MAX;
            CV.notify_all();
            return;
        }
        c
    } else {
        0
    };
    st.trace.push(PointRec { thread: me, kind, enabled: en.len(), chosen: choice, running_enabled: me_can_run });
    let next = en[choice];
    if next != me {
        st.current = next;
        CV.notify_all();
    }
    if me_finished {
        return;
    }
    // wait for the token
    while let Some(s) = g.as_ref() {
        if s.current == me || s.current == usize::MAX {
            break;
        }
        g = CV.wait(g).unwrap_or_else(|e| e.into_inner());
    }
}

fn hook(kind: SchedPoint) {
    let me = MY_ID.with(|m| m.get());
    if me == usize::MAX {
        return;
    }
    // thin out the very frequent kinds
    if matches!(kind, SchedPoint::ContextLock | SchedPoint::NewName | SchedPoint::Precomputed) {
        let mut g = STATE.lock().unwrap_or_else(|e| e.into_inner());
        if let Some(st) = g.as_mut() {
            st.thin[me] += 1;
            if st.stride > 1 && st.thin[me] % st.stride != 0 {
                return;
            }
        }
    }
    let spin = kind == SchedPoint::ContextLockSpin;
    decide(me, kind_name(kind), !spin, false);
}

pub struct RunResult {
    pub trace: Vec<PointRec>,
    pub results: Vec<Result<String, String>>,
    pub error: Option<String>,
}

pub type Body = Arc<dyn Fn() -> String + Send + Sync>;

/// Run the bodies on real threads under the given schedule prefix (choice 0 afterwards).
pub fn run_schedule(bodies: &[Body], prefix: &[usize], stride: usize, horizon: usize) -> RunResult {
    let n = bodies.len();
    {
        let mut g = STATE.lock().unwrap_or_else(|e| e.into_inner());
        *g = Some(State { n, current: usize::MAX - 1, finished: vec![false; n], started: vec![false; n], prefix: prefix.to_vec(), trace: vec![], horizon, error: None, thin: vec![0; n], stride, spin_streak: 0 });
    }
    set_sched_hook(Some(hook));
    let mut handles = vec![];
    for (id, b) in bodies.iter().enumerate() {
        let b = b.clone();
        handles.push(std::thread::spawn(move || {
            MY_ID.with(|m| m.set(id));
            manage_current_thread(true);
            // wait until the scheduler hands over the token for the first time
            {
                let mut g = STATE.lock().unwrap_or_else(|e| e.into_inner());
                if let Some(s) = g.as_mut() {
                    s.started[id] = true;
                }
                CV.notify_all();
                while let Some(s) = g.as_ref() {
                    if s.current == id || s.current == usize::MAX {
                        break;
                    }
                    g = CV.wait(g).unwrap_or_else(|e| e.into_inner());
                }
            }
            let r = catch_unwind(AssertUnwindSafe(|| b()));
            // thread end: forced switch
            {
                let mut g = STATE.lock().unwrap_or_else(|e| e.into_inner());
                if let Some(s) = g.as_mut() {
                    s.finished[id] = true;
                }
            }
            decide(id, "thread-end", false, true);
            manage_current_thread(false);
            MY_ID.with(|m| m.set(usize::MAX));
            r.map_err(|e| {
                if let Some(s) = e.downcast_ref::<&str>() {
                    s.to_string()
                } else if let Some(s) = e.downcast_ref::<String>() {
                    s.clone()
                } else {
                    "panic".to_string()
                }
            })
        }));
    }
    // wait until all threads are parked, then make the initial decision (thread start)
    {
        let mut g = STATE.lock().unwrap_or_else(|e| e.into_inner());
        while !g.as_ref().map(|s| s.started.iter().all(|b| *b)).unwrap_or(true) {
            g = CV.wait(g).unwrap_or_else(|e| e.into_inner());
        }
        if let Some(st) = g.as_mut() {
            let en: Vec<usize> = (0..n).collect();
            let pos = st.trace.len();
            let choice = if pos < st.prefix.len() { st.prefix[pos].min(n - 1) } else { 0 };
            st.trace.push(PointRec { thread: usize::MAX, kind: "start", enabled: n, chosen: choice, running_enabled: false });
            st.current = en[choice];
            CV.notify_all();
        }
    }
    let results: Vec<Result<String, String>> = handles.into_iter().map(|h| h.join().unwrap_or_else(|_| Err("thread join failed".into()))).collect();
    set_sched_hook(None);
    let st = STATE.lock().unwrap_or_else(|e| e.into_inner()).take().unwrap();
    RunResult { trace: st.trace, results, error: st.error }
}

pub struct Exploration {
    pub schedules: u64,
    pub points: u64,
    pub max_points: usize,
    pub with_preemption: u64,
    pub distinct_interleavings: std::collections::HashSet<Vec<usize>>,
    pub replays_checked: u64,
    pub capped: bool,
}

/// All schedules with at most `bound` preemptions. `check` judges each complete execution.
pub fn explore(bodies: &[Body], bound: usize, stride: usize, horizon: usize, max_schedules: u64, deadline: std::time::Instant, slice: (usize, usize), fix_first: bool, before_run: &mut dyn FnMut(), check: &mut dyn FnMut(&RunResult, &[usize]) -> bool) -> Exploration {
    let mut ex = Exploration { schedules: 0, points: 0, max_points: 0, with_preemption: 0, distinct_interleavings: Default::default(), replays_checked: 0, capped: false };
    let mut stack: Vec<Vec<usize>> = vec![vec![]];
    while let Some(prefix) = stack.pop() {
        if ex.schedules >= max_schedules || std::time::Instant::now() >= deadline {
            ex.capped = true;
            break;
        }
        before_run();
        let r = run_schedule(bodies, &prefix, stride, horizon);
        ex.schedules += 1;
        ex.points += r.trace.len() as u64;
        ex.max_points = ex.max_points.max(r.trace.len());
        let choices: Vec<usize> = r.trace.iter().map(|p| p.chosen).collect();
        let order: Vec<usize> = r.trace.iter().map(|p| p.thread).collect();
        if ex.distinct_interleavings.len() < 100_000 {
            ex.distinct_interleavings.insert(order);
        }
        let preempts = r.trace.iter().filter(|p| p.running_enabled && p.chosen != 0).count();
        if preempts > 0 {
            ex.with_preemption += 1;
        }
        // determinism audit: every tenth schedule is replayed in full and must give the same trace
        if ex.schedules % 10 == 1 {
            before_run();
            let r2 = run_schedule(bodies, &choices, stride, horizon);
            ex.replays_checked += 1;
            if r2.trace != r.trace || r2.results != r.results {
                let bad = RunResult { trace: r.trace.clone(), results: r.results.clone(), error: Some("nondeterminism: the same schedule replayed gives a different trace or different results".into()) };
                check(&bad, &choices);
                ex.capped = true;
                break;
            }
        }
        if !check(&r, &choices) {
            break;
        }
        let mut cost_before = 0;
        for i in 0..r.trace.len() {
            // the first deviation from the default schedule is what work is split on
            let mine = !prefix.is_empty() || i % slice.1 == slice.0;
            // (which thread starts is part of the case when `fix_first`: half of all schedules hang off that one choice)
            if i >= prefix.len() && mine && !(fix_first && i == 0) {
                for alt in 1..r.trace[i].enabled {
                    let cost = cost_before + usize::from(r.trace[i].running_enabled);
                    if cost <= bound {
                        let mut np = choices[..i].to_vec();
                        np.push(alt);
                        stack.push(np);
                    }
                }
            }
            if r.trace[i].running_enabled && r.trace[i].chosen != 0 {
                cost_before += 1;
            }
        }
    }
    ex
}
