//! Runner: sharding over worker processes, watchdog, panic capture, allocation meter,
//! evidence and replay files, known-findings matching.
//!
//! Exit codes of the master: 0 = property held on everything explored (known findings are
//! printed but do not change the status), 1 = at least one unlisted violation, 2 = machinery
//! failure (never a verdict).

use std::collections::BTreeMap;
use std::io::{BufRead, BufReader, Write};
use std::panic::{self, AssertUnwindSafe};
use std::process::{Command, Stdio};
use std::sync::atomic::{AtomicU64, AtomicUsize, Ordering};
use std::sync::{Arc, Mutex};
use std::time::{Duration, Instant};

use serde_json::{json, Value as Json};

pub mod alloc;
pub mod sched;

#[derive(Copy, Clone, Debug, PartialEq, Eq)]
pub enum Tier {
    Quick,
    Thorough,
}

impl Tier {
    pub fn name(self) -> &'static str {
        match self {
            Tier::Quick => "quick",
            Tier::Thorough => "thorough",
        }
    }
    pub fn pick<T>(self, q: T, t: T) -> T {
        match self {
            Tier::Quick => q,
            Tier::Thorough => t,
        }
    }
}

/// One violation of the property, as found by a worker.
#[derive(Clone, Debug)]
pub struct Violation {
    /// Class key used to match `known_findings.json` entries.
    pub class: String,
    /// Leg of the check that found it.
    pub leg: String,
    /// Fully rendered case (enough to find it again by re-enumeration).
    pub case: String,
    /// What was observed vs. expected.
    pub detail: String,
}

/// Per-worker accumulation. Merged by the master.
#[derive(Default)]
pub struct Out {
    pub evaluations: u64,
    pub states: u64,
    pub transitions: u64,
    pub nontrivial: u64,
    pub outcomes: BTreeMap<String, u64>,
    pub counters: BTreeMap<String, u64>,
    pub violations: Vec<Violation>,
    pub samples: Vec<Json>,
    pub caps: Vec<String>,
    pub notes: Vec<String>,
    pub sample_counts: BTreeMap<String, u64>,
}

impl Out {
    pub fn outcome(&mut self, k: &str) {
        *self.outcomes.entry(k.to_string()).or_insert(0) += 1;
    }
    pub fn count(&mut self, k: &str, n: u64) {
        *self.counters.entry(k.to_string()).or_insert(0) += n;
    }
    pub fn max(&mut self, k: &str, n: u64) {
        let e = self.counters.entry(format!("max:{k}")).or_insert(0);
        if n > *e {
            *e = n;
        }
    }
    pub fn violation(&mut self, class: &str, leg: &str, case: String, detail: String) {
        // keep the report bounded: at most 40 per class and worker
        let n = self.violations.iter().filter(|v| v.class == class).count();
        self.count(&format!("violations:{class}"), 1);
        if n < 40 {
            self.violations.push(Violation {
                class: class.to_string(),
                leg: leg.to_string(),
                case,
                detail,
            });
        }
    }
    /// Record up to three written-out cases per leg (the closure is only called when needed).
    pub fn sample(&mut self, leg: &str, f: impl FnOnce() -> (String, String)) {
        let n = self.sample_counts.entry(leg.to_string()).or_insert(0);
        // take the 1st, 100th and 10000th case of a leg so that samples are not all trivial
        *n += 1;
        if *n == 1 || *n == 100 || *n == 10_000 {
            let (case, note) = f();
            self.samples
                .push(json!({"leg": leg, "case": case, "observed": note}));
        }
    }
    pub fn cap(&mut self, s: impl Into<String>) {
        let s = s.into();
        if !self.caps.contains(&s) {
            self.caps.push(s);
        }
    }
    pub fn note(&mut self, s: impl Into<String>) {
        let s = s.into();
        if !self.notes.contains(&s) {
            self.notes.push(s);
        }
    }
}

/// Worker-side context.
pub struct Ctx {
    pub tier: Tier,
    pub seed: u64,
    pub shard: usize,
    pub nshards: usize,
    /// if set: only the case with this label (in this leg) is executed
    pub only: Option<(String, String)>,
    /// ordinals of cases to skip (hung / crashed earlier)
    pub skip: Vec<u64>,
    pub trace: bool,
    pub stop_at: Option<u64>,
    pub budget_ms: u64,
    ordinal: AtomicU64,
    unit: AtomicU64,
}

/// Panics caught inside helpers whose callers only see an `Err` (program construction in `space::`):
/// drained into the worker's violations after the run, so that a caller that skips unbuildable programs
/// cannot skip a panic.
pub static DEFERRED: Mutex<Vec<(String, String, String)>> = Mutex::new(Vec::new());

/// record a panic observed while building `case` (class from the panic message)
pub fn defer_panic(case: String, message: String) {
    let mut d = DEFERRED.lock().unwrap();
    if d.len() < 200 {
        d.push((panic_class(&message), case, message));
    }
}

pub static CUR_ORDINAL: AtomicU64 = AtomicU64::new(0);
pub static CUR_START_MS: AtomicU64 = AtomicU64::new(0);
static T0: Mutex<Option<Instant>> = Mutex::new(None);

pub fn now_ms() -> u64 {
    let mut g = T0.lock().unwrap();
    let t0 = *g.get_or_insert_with(Instant::now);
    t0.elapsed().as_millis() as u64 + 1
}

impl Ctx {
    /// Work-unit sharding: returns true if the next work unit belongs to this shard.
    /// Units are numbered in enumeration order, identically in every worker.
    pub fn mine(&self) -> bool {
        let u = self.unit.fetch_add(1, Ordering::Relaxed);
        (u % self.nshards as u64) == self.shard as u64
    }

    /// Announce the case about to be executed. Returns false if it must be skipped
    /// (replay filter, or known to hang/crash the worker - the master has already
    /// recorded it). `label` is only rendered when needed.
    pub fn begin(&self, leg: &str, label: &dyn Fn() -> String) -> bool {
        let ord = self.ordinal.fetch_add(1, Ordering::Relaxed);
        if let Some((l, c)) = &self.only {
            if l != leg || *c != label() {
                return false;
            }
            println!("REPLAY-CASE leg={} case={}", leg, c);
        }
        if self.stop_at == Some(ord) {
            println!("LABEL {} {}", ord, json!({"leg": leg, "case": label()}));
            std::io::stdout().flush().ok();
            std::process::exit(0);
        }
        if self.skip.contains(&ord) {
            return false;
        }
        if self.trace {
            eprintln!("B {}", ord);
        }
        CUR_ORDINAL.store(ord, Ordering::Relaxed);
        CUR_START_MS.store(now_ms(), Ordering::Relaxed);
        true
    }

    /// true unless this run is restricted to one case (replay) or skips cases known to hang
    pub fn is_full_run(&self) -> bool {
        self.only.is_none() && self.skip.is_empty()
    }

    pub fn end(&self) {
        CUR_START_MS.store(0, Ordering::Relaxed);
    }
}

thread_local! {
    static LAST_PANIC: std::cell::RefCell<Option<String>> = const { std::cell::RefCell::new(None) };
}

pub fn install_panic_hook() {
    panic::set_hook(Box::new(|info| {
        let msg = if let Some(s) = info.payload().downcast_ref::<&str>() {
            s.to_string()
        } else if let Some(s) = info.payload().downcast_ref::<String>() {
            s.clone()
        } else {
            "<non-string panic>".to_string()
        };
        let loc = info
            .location()
            .map(|l| format!("{}:{}", l.file(), l.line()))
            .unwrap_or_default();
        LAST_PANIC.with(|p| *p.borrow_mut() = Some(format!("{msg} @ {loc}")));
    }));
}

/// Run the subject under `catch_unwind`; a panic becomes `Err(message @ location)`.
pub fn guard<T>(f: impl FnOnce() -> T) -> Result<T, String> {
    match panic::catch_unwind(AssertUnwindSafe(f)) {
        Ok(v) => Ok(v),
        Err(_) => Err(LAST_PANIC
            .with(|p| p.borrow_mut().take())
            .unwrap_or_else(|| "<panic>".into())),
    }
}

/// Strip line numbers/addresses so that panic messages can be used as class keys.
pub fn panic_class(msg: &str) -> String {
    let loc = msg.rsplit(" @ ").next().unwrap_or("");
    let file = loc.split(':').next().unwrap_or("");
    let file = file.rsplit("/src/").next().unwrap_or(file);
    let head: String = msg.chars().take(40).filter(|c| !c.is_ascii_digit()).collect();
    format!("panic:{}:{}", file, head.trim())
}

pub type PropFn = fn(&Ctx, &mut Out);

pub struct PropDef {
    pub id: &'static str,
    pub run: PropFn,
    /// how distinct_nontrivial is counted
    pub rule: &'static str,
    pub assumptions: &'static [&'static str],
    /// (quick, thorough) number of shards
    pub shards: (usize, usize),
    /// per-case watchdog in ms (quick, thorough)
    pub budget_ms: (u64, u64),
}

fn out_to_json(o: &Out) -> Json {
    json!({
        "evaluations": o.evaluations, "states": o.states, "transitions": o.transitions,
        "nontrivial": o.nontrivial, "outcomes": o.outcomes, "counters": o.counters,
        "violations": o.violations.iter().map(|v| json!({"class": v.class, "leg": v.leg, "case": v.case, "detail": v.detail})).collect::<Vec<_>>(),
        "samples": o.samples, "caps": o.caps, "notes": o.notes,
    })
}

fn merge_json(into: &mut Out, j: &Json) {
    into.evaluations += j["evaluations"].as_u64().unwrap_or(0);
    into.states += j["states"].as_u64().unwrap_or(0);
    into.transitions += j["transitions"].as_u64().unwrap_or(0);
    into.nontrivial += j["nontrivial"].as_u64().unwrap_or(0);
    if let Some(m) = j["outcomes"].as_object() {
        for (k, v) in m {
            *into.outcomes.entry(k.clone()).or_insert(0) += v.as_u64().unwrap_or(0);
        }
    }
    if let Some(m) = j["counters"].as_object() {
        for (k, v) in m {
            let v = v.as_u64().unwrap_or(0);
            let e = into.counters.entry(k.clone()).or_insert(0);
            if k.starts_with("max:") {
                *e = (*e).max(v);
            } else {
                *e += v;
            }
        }
    }
    if let Some(a) = j["violations"].as_array() {
        for v in a {
            into.violations.push(Violation {
                class: v["class"].as_str().unwrap_or("").into(),
                leg: v["leg"].as_str().unwrap_or("").into(),
                case: v["case"].as_str().unwrap_or("").into(),
                detail: v["detail"].as_str().unwrap_or("").into(),
            });
        }
    }
    if let Some(a) = j["samples"].as_array() {
        for s in a {
            let leg = s["leg"].as_str().unwrap_or("");
            if into.samples.iter().filter(|x| x["leg"] == leg).count() < 3 {
                into.samples.push(s.clone());
            }
        }
    }
    for (arr, dst) in [("caps", &mut into.caps), ("notes", &mut into.notes)] {
        if let Some(a) = j[arr].as_array() {
            for s in a {
                let s = s.as_str().unwrap_or("").to_string();
                if !dst.contains(&s) {
                    dst.push(s);
                }
            }
        }
    }
}

pub struct WorkerArgs {
    pub tier: Tier,
    pub seed: u64,
    pub shard: usize,
    pub nshards: usize,
    pub only: Option<(String, String)>,
    pub skip: Vec<u64>,
    pub trace: bool,
    pub stop_at: Option<u64>,
    pub budget_ms: u64,
}

/// Worker entry: run one shard, print `RESULT <json>` on the last line.
pub fn worker_main(p: &PropDef, a: WorkerArgs) -> ! {
    install_panic_hook();
    now_ms();
    let budget = a.budget_ms;
    // watchdog: a case that exceeds its budget is reported and the worker exits with 3
    if a.stop_at.is_none() {
        std::thread::spawn(move || loop {
            std::thread::sleep(Duration::from_millis(100));
            let st = CUR_START_MS.load(Ordering::Relaxed);
            if st != 0 && now_ms().saturating_sub(st) > budget {
                println!("HANG {}", CUR_ORDINAL.load(Ordering::Relaxed));
                std::io::stdout().flush().ok();
                std::process::exit(3);
            }
        });
    }
    let ctx = Ctx {
        tier: a.tier,
        seed: a.seed,
        shard: a.shard,
        nshards: a.nshards,
        only: a.only,
        skip: a.skip,
        trace: a.trace,
        stop_at: a.stop_at,
        budget_ms: a.budget_ms,
        ordinal: AtomicU64::new(0),
        unit: AtomicU64::new(0),
    };
    let mut out = Out::default();
    let r = guard(|| (p.run)(&ctx, &mut out));
    for (class, case, message) in DEFERRED.lock().unwrap().drain(..) {
        out.violation(&class, "build", case, message);
    }
    if let Err(e) = r {
        // a panic that escaped the property's own guards is a harness bug
        println!("ENGINE-PANIC {}", e);
        std::io::stdout().flush().ok();
        std::process::exit(4);
    }
    println!("RESULT {}", out_to_json(&out));
    std::io::stdout().flush().ok();
    std::process::exit(0);
}

struct ShardState {
    skip: Vec<u64>,
    done: bool,
}

fn spawn_worker(
    exe: &std::path::Path,
    p: &PropDef,
    tier: Tier,
    seed: u64,
    shard: usize,
    nshards: usize,
    skip: &[u64],
    extra: &[String],
) -> std::io::Result<std::process::Child> {
    let mut c = Command::new(exe);
    c.arg("--worker")
        .arg(p.id)
        .arg("--tier")
        .arg(tier.name())
        .arg("--seed")
        .arg(seed.to_string())
        .arg("--shard")
        .arg(format!("{shard}/{nshards}"));
    if !skip.is_empty() {
        c.arg("--skip").arg(
            skip.iter()
                .map(|s| s.to_string())
                .collect::<Vec<_>>()
                .join(","),
        );
    }
    c.args(extra);
    c.stdin(Stdio::null())
        .stdout(Stdio::piped())
        .stderr(Stdio::piped());
    c.spawn()
}

enum WorkerEnd {
    Result(Json),
    Hang(u64),
    Crash(String, String),
    EnginePanic(String),
}

fn run_worker_to_end(
    exe: &std::path::Path,
    p: &PropDef,
    tier: Tier,
    seed: u64,
    shard: usize,
    nshards: usize,
    skip: &[u64],
    extra: &[String],
) -> WorkerEnd {
    let mut child = match spawn_worker(exe, p, tier, seed, shard, nshards, skip, extra) {
        Ok(c) => c,
        Err(e) => return WorkerEnd::EnginePanic(format!("cannot spawn worker: {e}")),
    };
    let stdout = child.stdout.take().unwrap();
    let stderr = child.stderr.take().unwrap();
    let errh = std::thread::spawn(move || {
        // keep only the tail of stderr
        let mut tail: Vec<String> = Vec::new();
        for l in BufReader::new(stderr).lines().map_while(Result::ok) {
            if tail.len() > 50 {
                tail.remove(0);
            }
            tail.push(l);
        }
        tail
    });
    let mut end = None;
    for l in BufReader::new(stdout).lines().map_while(Result::ok) {
        if let Some(r) = l.strip_prefix("RESULT ") {
            match serde_json::from_str::<Json>(r) {
                Ok(j) => end = Some(WorkerEnd::Result(j)),
                Err(e) => end = Some(WorkerEnd::EnginePanic(format!("bad RESULT json: {e}"))),
            }
        } else if let Some(r) = l.strip_prefix("HANG ") {
            end = Some(WorkerEnd::Hang(r.trim().parse().unwrap_or(u64::MAX)));
        } else if let Some(r) = l.strip_prefix("ENGINE-PANIC ") {
            end = Some(WorkerEnd::EnginePanic(r.to_string()));
        } else if let Some(r) = l.strip_prefix("LABEL ") {
            end = Some(WorkerEnd::Crash("label".into(), r.to_string()));
        } else if l.starts_with("REPLAY-CASE") {
            println!("{l}");
        }
    }
    let status = child.wait();
    let tail = errh.join().unwrap_or_default();
    if let Some(e) = end {
        return e;
    }
    let st = match status {
        Ok(s) => format!("{s}"),
        Err(e) => format!("wait failed: {e}"),
    };
    WorkerEnd::Crash(st, tail.join("\n"))
}

/// Ask a worker for the label of the case with the given ordinal.
fn label_of(
    exe: &std::path::Path,
    p: &PropDef,
    tier: Tier,
    seed: u64,
    shard: usize,
    nshards: usize,
    skip: &[u64],
    ord: u64,
) -> Json {
    let extra = vec!["--stop-at".to_string(), ord.to_string()];
    match run_worker_to_end(exe, p, tier, seed, shard, nshards, skip, &extra) {
        WorkerEnd::Crash(k, rest) if k == "label" => {
            let mut it = rest.splitn(2, ' ');
            let _ord = it.next();
            serde_json::from_str(it.next().unwrap_or("null")).unwrap_or(Json::Null)
        }
        _ => Json::Null,
    }
}

pub struct MasterArgs {
    pub tier: Tier,
    pub seed: u64,
    pub replay: Option<String>,
    pub jobs: usize,
}

pub fn verif_dir() -> std::path::PathBuf {
    std::env::var("VERIF_DIR")
        .map(std::path::PathBuf::from)
        .unwrap_or_else(|_| std::path::PathBuf::from("/verif"))
}

pub fn master_main(p: &'static PropDef, a: MasterArgs) -> ! {
    let t0 = Instant::now();
    let exe = std::env::current_exe().expect("current_exe");
    let vdir = verif_dir();
    let tier = a.tier;

    // replay mode: single worker, filter on the recorded case
    let mut extra: Vec<String> = vec![];
    let mut nshards = tier.pick(p.shards.0, p.shards.1).max(1);
    let mut replay_expect: Option<Json> = None;
    if let Some(path) = &a.replay {
        let txt = match std::fs::read_to_string(path) {
            Ok(t) => t,
            Err(e) => {
                eprintln!("cannot read replay file {path}: {e}");
                std::process::exit(2)
            }
        };
        let j: Json = serde_json::from_str(&txt).unwrap_or(Json::Null);
        extra.push("--only".into());
        extra.push(j["leg"].as_str().unwrap_or("").into());
        extra.push(j["case"].as_str().unwrap_or("").into());
        // same sharding as the recorded run: every worker enumerates its own share of the space
        // (a single worker would have to hold all of it) and executes only the recorded case
        nshards = match j["tier"].as_str() {
            Some("thorough") => p.shards.1,
            Some("quick") => p.shards.0,
            _ => nshards,
        }
        .max(1);
        replay_expect = Some(j);
    }

    let shards: Arc<Mutex<Vec<ShardState>>> = Arc::new(Mutex::new(
        (0..nshards)
            .map(|_| ShardState {
                skip: vec![],
                done: false,
            })
            .collect(),
    ));
    let next = Arc::new(AtomicUsize::new(0));
    let merged = Arc::new(Mutex::new(Out::default()));
    let engine_errors: Arc<Mutex<Vec<String>>> = Arc::new(Mutex::new(vec![]));
    let replay_tier = replay_expect
        .as_ref()
        .and_then(|j| j["tier"].as_str().map(|s| s.to_string()));
    let tier = match replay_tier.as_deref() {
        Some("thorough") => Tier::Thorough,
        Some("quick") => Tier::Quick,
        _ => tier,
    };
    let jobs = a.jobs.min(nshards).max(1);
    let mut handles = vec![];
    for _ in 0..jobs {
        let shards = shards.clone();
        let next = next.clone();
        let merged = merged.clone();
        let engine_errors = engine_errors.clone();
        let exe = exe.clone();
        let extra = extra.clone();
        let seed = a.seed;
        handles.push(std::thread::spawn(move || loop {
            let s = next.fetch_add(1, Ordering::SeqCst);
            if s >= nshards {
                break;
            }
            let mut restarts = 0;
            loop {
                let skip = shards.lock().unwrap()[s].skip.clone();
                let end = run_worker_to_end(&exe, p, tier, seed, s, nshards, &skip, &extra);
                match end {
                    WorkerEnd::Result(j) => {
                        merge_json(&mut merged.lock().unwrap(), &j);
                        shards.lock().unwrap()[s].done = true;
                        break;
                    }
                    WorkerEnd::Hang(ord) => {
                        let lab = label_of(&exe, p, tier, seed, s, nshards, &skip, ord);
                        let mut m = merged.lock().unwrap();
                        m.evaluations += 1;
                        let leg = lab["leg"].as_str().unwrap_or("?").to_string();
                        let case = lab["case"].as_str().unwrap_or("?").to_string();
                        m.violation(
                            &format!("hang:{leg}"),
                            &leg,
                            case,
                            format!("no result within the per-case budget of {} ms (worker killed)", tier.pick(p.budget_ms.0, p.budget_ms.1)),
                        );
                        drop(m);
                        shards.lock().unwrap()[s].skip.push(ord);
                    }
                    WorkerEnd::Crash(status, tail) => {
                        // find the case in flight by re-running in trace mode
                        let mut ex = extra.clone();
                        ex.push("--trace".into());
                        let e2 = run_worker_to_end(&exe, p, tier, seed, s, nshards, &skip, &ex);
                        let ord = match &e2 {
                            WorkerEnd::Crash(_, tail2) => tail2
                                .lines()
                                .rev()
                                .find_map(|l| l.strip_prefix("B ").and_then(|x| x.trim().parse::<u64>().ok())),
                            _ => None,
                        };
                        match ord {
                            Some(ord) => {
                                let lab = label_of(&exe, p, tier, seed, s, nshards, &skip, ord);
                                let leg = lab["leg"].as_str().unwrap_or("?").to_string();
                                let case = lab["case"].as_str().unwrap_or("?").to_string();
                                let mut m = merged.lock().unwrap();
                                m.evaluations += 1;
                                m.violation(
                                    &format!("crash:{leg}"),
                                    &leg,
                                    case,
                                    format!("worker process died ({status}); stderr tail: {}", tail.lines().rev().take(3).collect::<Vec<_>>().join(" | ")),
                                );
                                drop(m);
                                shards.lock().unwrap()[s].skip.push(ord);
                            }
                            None => {
                                engine_errors.lock().unwrap().push(format!(
                                    "shard {s}: worker died ({status}) and the case in flight could not be located; stderr: {tail}"
                                ));
                                break;
                            }
                        }
                    }
                    WorkerEnd::EnginePanic(e) => {
                        engine_errors
                            .lock()
                            .unwrap()
                            .push(format!("shard {s}: {e}"));
                        break;
                    }
                }
                restarts += 1;
                if restarts > 200 {
                    engine_errors
                        .lock()
                        .unwrap()
                        .push(format!("shard {s}: more than 200 restarts"));
                    break;
                }
            }
        }));
    }
    for h in handles {
        h.join().ok();
    }
    let errs = engine_errors.lock().unwrap().clone();
    if !errs.is_empty() {
        for e in &errs {
            eprintln!("ENGINE-ERROR property={} {}", p.id, e);
        }
        std::process::exit(2);
    }
    let out = std::mem::take(&mut *merged.lock().unwrap());
    finish(p, tier, a.seed, a.replay.is_some(), out, t0, &vdir)
}

fn load_known(vdir: &std::path::Path, id: &str) -> Vec<Json> {
    let path = vdir.join("known_findings.json");
    let txt = std::fs::read_to_string(path).unwrap_or_else(|_| "{\"findings\":[]}".into());
    let j: Json = serde_json::from_str(&txt).unwrap_or(json!({"findings": []}));
    j["findings"]
        .as_array()
        .cloned()
        .unwrap_or_default()
        .into_iter()
        .filter(|f| f["property"] == id && f["status"] == "known")
        .collect()
}

fn sanitize(s: &str) -> String {
    s.chars()
        .map(|c| if c.is_ascii_alphanumeric() { c } else { '_' })
        .take(48)
        .collect()
}

fn finish(
    p: &PropDef,
    tier: Tier,
    seed: u64,
    replaying: bool,
    out: Out,
    t0: Instant,
    vdir: &std::path::Path,
) -> ! {
    let known = load_known(vdir, p.id);
    let mut known_hit: BTreeMap<String, (String, u64)> = BTreeMap::new();
    let mut unlisted: Vec<&Violation> = vec![];
    for v in &out.violations {
        let k = known
            .iter()
            .find(|f| f["class"].as_str().map(|c| c == v.class).unwrap_or(false));
        match k {
            Some(f) => {
                let e = known_hit
                    .entry(v.class.clone())
                    .or_insert((f["what"].as_str().unwrap_or("").to_string(), 0));
                e.1 += 1;
            }
            None => unlisted.push(v),
        }
    }
    for (class, (what, _)) in &known_hit {
        let n = out
            .counters
            .get(&format!("violations:{class}"))
            .copied()
            .unwrap_or(0);
        println!(
            "KNOWN-FINDING: property={} class={} cases={} {}",
            p.id, class, n, what
        );
        // a replayable instance of the known finding (run output, not the findings file)
        if !replaying {
            if let Some(v) = out.violations.iter().filter(|v| &v.class == class).min_by_key(|v| v.case.len()) {
                let rdir = vdir.join("replays").join(p.id);
                std::fs::create_dir_all(&rdir).ok();
                let path = rdir.join(format!("known_{}.json", sanitize(class)));
                let j = json!({"property": p.id, "tier": tier.name(), "class": class, "leg": v.leg, "case": v.case, "detail": v.detail, "known_finding": true});
                std::fs::write(&path, serde_json::to_string_pretty(&j).unwrap()).ok();
            }
        }
    }
    // replay files for unlisted violations (one per class, first case)
    let rdir = vdir.join("replays").join(p.id);
    let mut printed: Vec<String> = vec![];
    let mut by_class: BTreeMap<String, Vec<&Violation>> = BTreeMap::new();
    for v in &unlisted {
        by_class.entry(v.class.clone()).or_default().push(v);
    }
    for (class, vs) in &by_class {
        std::fs::create_dir_all(&rdir).ok();
        // shortest case first: easiest to explain
        let v = vs.iter().min_by_key(|v| v.case.len()).unwrap();
        let path = rdir.join(format!("{}.json", sanitize(class)));
        let j = json!({
            "property": p.id, "tier": tier.name(), "class": class, "leg": v.leg, "case": v.case,
            "detail": v.detail,
            "other_cases_same_class": vs.iter().skip(1).take(80).map(|v| v.case.clone()).collect::<Vec<_>>(),
            "profile": "release, opt-level=2, debug-assertions=on, overflow-checks=on",
            "replay": format!("./check {} --replay {}", p.id, path.display()),
        });
        if !replaying {
            std::fs::write(&path, serde_json::to_string_pretty(&j).unwrap()).ok();
        }
        println!("VIOLATION property={} replay={}", p.id, path.display());
        println!("  class={} leg={} case={}", class, v.leg, v.case);
        println!("  detail={}", v.detail);
        printed.push(class.clone());
    }
    let wall = t0.elapsed().as_secs_f64();
    let exhaustive = out.caps.is_empty();
    let mut samples = out.samples.clone();
    if samples.is_empty() {
        samples.push(json!({"note": "no case sampled"}));
    }
    let ev = json!({
        "property_id": p.id,
        "tier": tier.name(),
        "seed": seed,
        "level": "model_checking",
        "coverage": {
            "states": out.states.max(1),
            "transitions": out.transitions.max(1),
            "traces_validated_against_impl": out.transitions,
            "evaluations": out.evaluations,
            "distinct_nontrivial": out.nontrivial,
            "rule": p.rule,
            "samples": samples,
            "exhaustive": exhaustive,
            "caps_hit": out.caps,
            "outcome_classes": out.outcomes,
            "counters": out.counters,
            "notes": out.notes,
            "known_findings_seen": known_hit.iter().map(|(k, v)| json!({"class": k, "what": v.0})).collect::<Vec<_>>(),
            "unlisted_violation_classes": printed,
        },
        "assumptions": p.assumptions,
        "wall_s": wall,
        "violations": unlisted.len(),
    });
    if !replaying {
        let edir = vdir.join("evidence");
        std::fs::create_dir_all(&edir).ok();
        let path = edir.join(format!("{}.json", p.id));
        if let Err(e) = std::fs::write(&path, serde_json::to_string_pretty(&ev).unwrap()) {
            eprintln!("ENGINE-ERROR cannot write evidence: {e}");
            std::process::exit(2);
        }
        // a second copy that the next quick run does not overwrite (the thorough runs take hours in all)
        if tier == Tier::Thorough {
            let _ = std::fs::write(edir.join(format!("{}.thorough.json", p.id)), serde_json::to_string_pretty(&ev).unwrap());
        }
    }
    println!(
        "property={} tier={} states={} transitions={} evaluations={} nontrivial={} outcomes={} violations={} known={} wall={:.1}s exhaustive={}",
        p.id,
        tier.name(),
        out.states,
        out.transitions,
        out.evaluations,
        out.nontrivial,
        out.outcomes.len(),
        unlisted.len(),
        known_hit.len(),
        wall,
        exhaustive
    );
    if replaying {
        if unlisted.is_empty() && known_hit.is_empty() {
            println!("REPLAY: no violation reproduced");
        }
        std::process::exit(if unlisted.is_empty() { 0 } else { 1 });
    }
    if out.evaluations == 0 {
        eprintln!("ENGINE-ERROR property={} explored nothing", p.id);
        std::process::exit(2);
    }
    std::process::exit(if unlisted.is_empty() { 0 } else { 1 });
}
