//! Counting global allocator: current and peak live bytes, plus a hard per-allocation cap
//! (an allocation above the cap fails, which aborts the worker; the master records the case
//! in flight as a CRASH - "attempted the allocation").

use std::alloc::{GlobalAlloc, Layout, System};
use std::sync::atomic::{AtomicUsize, Ordering};

pub struct Meter;

static CUR: AtomicUsize = AtomicUsize::new(0);
static PEAK: AtomicUsize = AtomicUsize::new(0);
pub const HARD_CAP: usize = 3 << 30;

unsafe impl GlobalAlloc for Meter {
    unsafe fn alloc(&self, l: Layout) -> *mut u8 {
        if l.size() > HARD_CAP {
            return std::ptr::null_mut();
        }
        let p = System.alloc(l);
        if !p.is_null() {
            let c = CUR.fetch_add(l.size(), Ordering::Relaxed) + l.size();
            PEAK.fetch_max(c, Ordering::Relaxed);
        }
        p
    }
    unsafe fn alloc_zeroed(&self, l: Layout) -> *mut u8 {
        if l.size() > HARD_CAP {
            return std::ptr::null_mut();
        }
        let p = System.alloc_zeroed(l);
        if !p.is_null() {
            let c = CUR.fetch_add(l.size(), Ordering::Relaxed) + l.size();
            PEAK.fetch_max(c, Ordering::Relaxed);
        }
        p
    }
    unsafe fn dealloc(&self, p: *mut u8, l: Layout) {
        System.dealloc(p, l);
        CUR.fetch_sub(l.size(), Ordering::Relaxed);
    }
    unsafe fn realloc(&self, p: *mut u8, l: Layout, new: usize) -> *mut u8 {
        if new > HARD_CAP {
            return std::ptr::null_mut();
        }
        let q = System.realloc(p, l, new);
        if !q.is_null() {
            if new >= l.size() {
                let c = CUR.fetch_add(new - l.size(), Ordering::Relaxed) + (new - l.size());
                PEAK.fetch_max(c, Ordering::Relaxed);
            } else {
                CUR.fetch_sub(l.size() - new, Ordering::Relaxed);
            }
        }
        q
    }
}

/// Start a measurement: returns the baseline.
pub fn mark() -> usize {
    let c = CUR.load(Ordering::Relaxed);
    PEAK.store(c, Ordering::Relaxed);
    c
}

/// Peak number of bytes live above the baseline since `mark`.
pub fn peak_since(base: usize) -> usize {
    PEAK.load(Ordering::Relaxed).saturating_sub(base)
}
