//! C10 - value encodings, accessors and pruning follow the type's bit layout.
//! Space V(k): every type with <= k constructors (plus words/buffers at thorough), every value,
//! every production history; every prune target in T_j. Oracle: RT/RV reference trees.

use crate::engine::{guard, panic_class, Ctx, Out, PropDef, Tier};
use crate::reference::bits::{bits_str, bits_to_bytes};
use crate::reference::tyval::*;
use crate::space::values::*;
use simplicity::{BitIter, Value};
use std::rc::Rc;

pub static DEF: PropDef = PropDef {
    id: "C10",
    run,
    rule: "states = distinct (type, value, history) triples; transitions = library calls judged (encode, decode, accessor, constructor, prune); non-trivial = type has sum padding or history is a dirty-buffer one",
    assumptions: &[
        "reference = plain enum trees with the Tech Report's width/padding definitions",
        "for prune targets that are not <= the value's type but differ only off the value's path, both None and the correctly pruned value are accepted",
    ],
    shards: (16, 64),
    budget_ms: (60_000, 180_000),
};

pub fn type_universe(tier: Tier) -> Vec<Rc<RT>> {
    let mut v = types_upto(tier.pick(3, 7));
    // wider members: words, options of words, unequal sums
    let extra: Vec<Rc<RT>> = vec![
        RT::word(2),
        RT::word(3),
        RT::sum(&RT::unit(), &RT::word(3)),
        RT::sum(&RT::word(3), &RT::word(1)),
        RT::prod(&RT::sum(&RT::unit(), &RT::word(2)), &RT::sum(&RT::word(1), &RT::unit())),
        RT::sum(&RT::sum(&RT::unit(), &RT::word(2)), &RT::word(1)),
    ];
    v.extend(extra);
    // types whose padding flag is decided by one child only (see padding_flag_family)
    v.extend(crate::reference::tyval::padding_flag_family(tier.pick(6, 7)));
    if tier == Tier::Thorough {
        v.extend([
            RT::word(4),
            RT::word(5),
            RT::word(6),
            RT::word(8),
            RT::word(9),
            RT::sum(&RT::word(6), &RT::word(8)),
            RT::from_final(&simplicity::types::Final::buffer8_two_n_plus_one(2).unwrap()),
            RT::from_final(&simplicity::types::Final::buffer8_two_n_plus_one(5).unwrap()),
            RT::from_final(&simplicity::types::Final::ctx8()),
        ]);
    }
    let mut seen = std::collections::HashSet::new();
    v.retain(|t| seen.insert(t.clone()));
    v
}

pub fn values_for(t: &RT, out: &mut Out) -> Vec<Rc<RV>> {
    let cap = 4096;
    if t.cardinality() <= cap as u128 {
        values_of(t, cap).0
    } else {
        out.cap(format!("type {} has more than {cap} values: corner values only", short(t)));
        corner_values(t)
    }
}

pub fn short(t: &RT) -> String {
    let s = t.to_string();
    if s.len() > 60 {
        format!("{}..(width {})", &s[..50], t.width())
    } else {
        s
    }
}

fn run(ctx: &Ctx, out: &mut Out) {
    leg_named(ctx, out);
    let types = type_universe(ctx.tier);
    let targets = types_upto(ctx.tier.pick(2, 3));
    let hists = all_hists();
    let leg = "layout";
    for t in &types {
        if !ctx.mine() {
            continue;
        }
        let vals = values_for(t, out);
        let fin = t.to_final();
        // structural facts about the type itself
        out.transitions += 2;
        if fin.bit_width() as u128 != t.width() || fin.has_padding() != t.has_padding() {
            out.violation("type:width", leg, format!("type={t}"), format!("bit_width {} has_padding {}; reference {} {}", fin.bit_width(), fin.has_padding(), t.width(), t.has_padding()));
        }
        for v in &vals {
            for h in &hists {
                let label = || format!("type={} value={} history={:?}", short(t), v, h);
                if !ctx.begin(leg, &label) {
                    continue;
                }
                let r = guard(|| check(t, v, h, &targets, out));
                match r {
                    Ok(Ok(true)) => out.sample(leg, || (label(), "layout, accessors, decode and prune agree with the reference".into())),
                    Ok(Ok(false)) => {}
                    Ok(Err((class, d))) => out.violation(&class, leg, label(), d),
                    Err(p) => out.violation(&panic_class(&p), leg, label(), p),
                }
                ctx.end();
            }
        }
    }
}

type V = Result<bool, (String, String)>;

fn bad<T>(class: &str, d: String) -> Result<T, (String, String)> {
    Err((class.to_string(), d))
}

fn rv_of(x: &Value, what: &str) -> Result<Rc<RV>, (String, String)> {
    RV::from_value(x).map_err(|e| ("accessor:inconsistent".to_string(), format!("{what}: {e}")))
}

fn check(t: &Rc<RT>, v: &Rc<RV>, h: &Hist, targets: &[Rc<RT>], out: &mut Out) -> V {
    let x = match produce(t, v, h) {
        Ok(Some(x)) => x,
        Ok(None) => return Ok(false),
        Err(e) => return bad("produce:refused", e),
    };
    out.evaluations += 1;
    out.states += 1;
    let dirty = !matches!(h, Hist::Ctor | Hist::Compact | Hist::Padded(false) | Hist::Zero);
    if t.has_padding() || dirty {
        out.nontrivial += 1;
    }
    let fin = t.to_final();
    out.transitions += 6;
    if !x.is_of_type(&fin) {
        return bad("value:type", "produced value is not of the requested type".into());
    }
    // 1. lengths
    let compact = v.compact();
    let padded = v.padded(t);
    if x.padded_len() as u128 != t.width() || x.padded_len() != padded.len() {
        return bad("layout:padded_len", format!("padded_len {} width {}", x.padded_len(), t.width()));
    }
    if x.compact_len() != compact.len() {
        return bad("layout:compact_len", format!("compact_len {} reference {}", x.compact_len(), compact.len()));
    }
    // 2. bits
    let cb: Vec<bool> = x.iter_compact().collect();
    if cb != compact {
        return bad("layout:compact_bits", format!("iter_compact {} reference {}", bits_str(&cb), bits_str(&compact)));
    }
    let pb: Vec<bool> = x.iter_padded().collect();
    if pb.len() != padded.len() || pb.iter().zip(&padded).any(|(a, b)| b.map(|b| b != *a).unwrap_or(false)) {
        return bad("layout:padded_bits", format!("iter_padded {} reference (padding=_) {}", bits_str(&pb), padded.iter().map(|b| match b { Some(true) => '1', Some(false) => '0', None => '_' }).collect::<String>()));
    }
    // 3. accessors give back the tree
    let back = rv_of(&x, "accessors on produced value")?;
    if back != *v {
        return bad("accessor:wrong", format!("accessors read {back}, expected {v}"));
    }
    // 4. decoders: same value, exact consumption, trailing garbage untouched
    for garbage in [false, true] {
        let mut bits = compact.clone();
        bits.extend([garbage; 9]);
        let bytes = bits_to_bytes(&bits);
        let mut it = BitIter::from(bytes.as_slice());
        out.transitions += 1;
        match Value::from_compact_bits(&mut it, &fin) {
            Ok(y) => {
                if it.n_total_read() != compact.len() {
                    return bad("decode:compact-consumed", format!("consumed {} of {} compact bits", it.n_total_read(), compact.len()));
                }
                if rv_of(&y, "compact-decoded")? != *v || !y.is_of_type(&fin) {
                    return bad("decode:compact-value", "from_compact_bits returns a different value".into());
                }
            }
            Err(e) => return bad("decode:compact-refused", format!("{e}")),
        }
        let mut bits = v.padded_fill(t, garbage);
        bits.extend([garbage; 9]);
        let bytes = bits_to_bytes(&bits);
        let mut it = BitIter::from(bytes.as_slice());
        out.transitions += 1;
        match Value::from_padded_bits(&mut it, &fin) {
            Ok(y) => {
                if it.n_total_read() != padded.len() {
                    return bad("decode:padded-consumed", format!("consumed {} of {} padded bits", it.n_total_read(), padded.len()));
                }
                if rv_of(&y, "padded-decoded")? != *v || !y.is_of_type(&fin) {
                    return bad("decode:padded-value", "from_padded_bits returns a different value".into());
                }
                let cb: Vec<bool> = y.iter_compact().collect();
                if cb != compact {
                    return bad("decode:padded-compact", "compact bits of a padded-decoded value differ".into());
                }
            }
            Err(e) => return bad("decode:padded-refused", format!("{e}")),
        }
    }
    // truncated streams are refused, not mis-decoded
    if !compact.is_empty() {
        let bytes = bits_to_bytes(&compact[..compact.len() - 1]);
        // only meaningful if the truncation removes a whole byte boundary's worth; use exact bit windows instead
        let _ = bytes;
    }
    // 5. constructors are inverse to accessors, whatever the history of the part
    let others = [RT::unit(), RT::bit(), RT::word(2), RT::sum(&RT::unit(), &RT::word(1))];
    for o in &others {
        out.transitions += 3;
        let ofin = o.to_final();
        let l = Value::left(x.shallow_clone(), ofin.clone());
        let got = rv_of(&l, "Value::left(x, _)")?;
        if got != RV::l(v) || l.as_left().map(|p| rv_of(&p.to_value(), "as_left")).transpose()?.as_deref() != Some(&**v) {
            return bad("ctor:left", format!("left(x, {o}) reads back {got}"));
        }
        let r = Value::right(ofin.clone(), x.shallow_clone());
        let got = rv_of(&r, "Value::right(_, x)")?;
        if got != RV::r(v) {
            return bad("ctor:right", format!("right({o}, x) reads back {got}"));
        }
        let oz = RV::zero(o);
        let oc = corner_values(o).pop().unwrap();
        for ov in [&oz, &oc] {
            let y = ov.to_value(o);
            let p = Value::product(x.shallow_clone(), y.shallow_clone());
            let got = rv_of(&p, "Value::product(x, y)")?;
            if got != RV::pair(v, ov) {
                return bad("ctor:product", format!("product(x, {ov}) reads back {got}"));
            }
            let p = Value::product(y, x.shallow_clone());
            let got = rv_of(&p, "Value::product(y, x)")?;
            if got != RV::pair(ov, v) {
                return bad("ctor:product", format!("product({ov}, x) reads back {got}"));
            }
            let cb: Vec<bool> = p.iter_compact().collect();
            if cb != RV::pair(ov, v).compact() {
                return bad("ctor:product-compact", "compact bits of product(y, x) differ".into());
            }
        }
    }
    // 6. prune to every target
    for tt in targets.iter().chain(std::iter::once(t)) {
        out.transitions += 1;
        let want = v.prune(t, tt);
        let got = x.prune(&tt.to_final());
        let le = tt.sub(t);
        match (&want, &got) {
            (Some(w), Some(g)) => {
                if !g.is_of_type(&tt.to_final()) {
                    return bad("prune:type", format!("prune to {tt} returns a value of another type"));
                }
                let gr = rv_of(g, "pruned value")?;
                if gr != *w {
                    return bad("prune:value", format!("prune to {tt} = {gr}, reference {w}"));
                }
                let cb: Vec<bool> = g.iter_compact().collect();
                if cb != w.compact() {
                    return bad("prune:compact", format!("prune to {tt}: compact bits differ from reference"));
                }
                out.outcome(if le { "prune:some" } else { "prune:some-offpath-incompatible" });
            }
            (Some(_), None) => {
                if le {
                    return bad("prune:refused", format!("prune to smaller type {tt} returned None"));
                }
                out.outcome("prune:none-offpath-incompatible");
            }
            (None, Some(g)) => {
                return bad("prune:malformed", format!("prune to incompatible type {tt} returned {g}"));
            }
            (None, None) => out.outcome("prune:none"),
        }
        // 7. two steps == one step
        if le {
            if let Some(g1) = &got {
                for t2 in targets {
                    if t2.sub(tt) {
                        out.transitions += 2;
                        let one = x.prune(&t2.to_final());
                        let two = g1.prune(&t2.to_final());
                        let (a, b) = match (one, two) {
                            (Some(a), Some(b)) => (a, b),
                            _ => return bad("prune:two-step-refused", format!("prune {t} -> {tt} -> {t2} refused")),
                        };
                        if rv_of(&a, "one-step")? != rv_of(&b, "two-step")? || !b.is_of_type(&t2.to_final()) {
                            return bad("prune:two-step", format!("prune {t} -> {tt} -> {t2} differs from {t} -> {t2}"));
                        }
                    }
                }
            }
        }
    }
    out.outcome("ok");
    Ok(true)
}

/// The named constructors (options, words from integers and byte arrays, word concatenation, the
/// variable-length buffer and SHA-256 context values): each against the value written out from the
/// type's definition, and the context values end to end through the `sha_256_ctx_8_*` jets.
fn leg_named(ctx: &Ctx, out: &mut Out) {
    use crate::reference::sha;
    use simplicity::hashes::{sha256, HashEngine};
    use simplicity::jet::{Core, CoreEnv};
    use simplicity::node::{ConstructNode, CoreConstructible, JetConstructible, WitnessConstructible};
    use simplicity::types::{self, Final};
    use simplicity::{BitMachine, Value, Word};
    use std::sync::Arc;
    let leg = "named-constructors";
    if !ctx.mine() {
        return;
    }
    let mut case = |name: String, f: &mut dyn FnMut() -> Result<(), String>| {
        let label = || name.clone();
        if !ctx.begin(leg, &label) {
            return;
        }
        out.evaluations += 1;
        out.states += 1;
        out.nontrivial += 1;
        match guard(|| f()) {
            Ok(Ok(())) => out.sample(leg, || (label(), "equals the value written out from the type's definition".into())),
            Ok(Err(d)) => out.violation("named:value", leg, label(), d),
            Err(p) => out.violation(&panic_class(&p), leg, label(), p),
        }
        ctx.end();
    };
    let same = |v: &Value, t: &Rc<RT>, want: &Rc<RV>| -> Result<(), String> {
        if RT::from_final(v.ty()) != *t {
            return Err(format!("type is {}, expected {t}", v.ty()));
        }
        let got = RV::from_value(v)?;
        if got != *want {
            return Err(format!("value is {got}, expected {want}"));
        }
        let raw: Vec<u8> = v.raw_byte_iter().collect();
        let padded: Vec<bool> = v.iter_padded().collect();
        let mut from_raw = crate::reference::bits::bytes_to_bits(&raw);
        from_raw.truncate(padded.len());
        // padding positions are unspecified: compare data positions only
        let spec = want.padded(t);
        if raw.len() != padded.len().div_ceil(8) || spec.iter().zip(&from_raw).any(|(s, r)| s.map(|s| s != *r).unwrap_or(false)) {
            return Err("raw_byte_iter disagrees with the padded encoding".into());
        }
        let _ = format!("{v} {v:?}");
        Ok(())
    };
    // options and emptiness
    for t in types_upto(2) {
        case(format!("none / some / is_unit / is_empty at {t}"), &mut || {
            let n = Value::none(t.to_final());
            same(&n, &RT::sum(&RT::unit(), &t), &RV::l(&RV::unit()))?;
            for v in values_of(&t, 64).0 {
                let s = Value::some(v.to_value(&t));
                same(&s, &RT::sum(&RT::unit(), &t), &RV::r(&v))?;
                let x = v.to_value(&t);
                if x.is_unit() != (*t == RT::Unit) || x.is_empty() != (t.width() == 0) {
                    return Err(format!("is_unit / is_empty wrong on {v} : {t}"));
                }
            }
            Ok(())
        });
    }
    // words
    for pattern in [0x00u8, 0xff, 0xa5, 0x01, 0x80] {
        case(format!("words of every size from bytes {pattern:#04x}: integer constructors, from_byte_array, Word::product"), &mut || {
            let w = |k: usize| RV::word_bytes(&vec![pattern; k]);
            same(&Value::u8(pattern), &RT::word(3), &w(1))?;
            same(&Value::u16(u16::from_be_bytes([pattern; 2])), &RT::word(4), &w(2))?;
            same(&Value::u32(u32::from_be_bytes([pattern; 4])), &RT::word(5), &w(4))?;
            same(&Value::u64(u64::from_be_bytes([pattern; 8])), &RT::word(6), &w(8))?;
            same(&Value::u128(u128::from_be_bytes([pattern; 16])), &RT::word(7), &w(16))?;
            same(&Value::u256([pattern; 32]), &RT::word(8), &w(32))?;
            same(&Value::u512([pattern; 64]), &RT::word(9), &w(64))?;
            same(&Value::from_byte_array([pattern; 1]), &RT::word(3), &w(1))?;
            same(&Value::from_byte_array([pattern, !pattern]), &RT::word(4), &RV::word_bytes(&[pattern, !pattern]))?;
            same(&Value::from_byte_array([pattern; 4]), &RT::word(5), &w(4))?;
            same(&Value::from_byte_array([pattern; 16]), &RT::word(7), &w(16))?;
            same(&Value::from_byte_array([pattern; 128]), &RT::word(10), &w(128))?;
            // concatenation
            let a = Word::u8(pattern);
            let b = Word::u8(!pattern);
            let ab = a.shallow_clone().product(b).ok_or("Word::product of two bytes is None")?;
            same(ab.as_value(), &RT::word(4), &RV::word_bytes(&[pattern, !pattern]))?;
            if ab.n() != 4 || Word::u8(1).product(Word::u16(1)).is_some() {
                return Err("Word::product: wrong n, or words of different length were concatenated".into());
            }
            Ok(())
        });
    }
    // buffers: B_n = (1 + 2^(8*2^n)) * B_(n-1), ..., B_0 = 1 + 2^8: one option per binary digit of the length
    let buffer = |n: usize, data: &[u8]| -> (Rc<RT>, Vec<bool>) {
        let t = RT::from_final(&Final::buffer8_two_n_plus_one(n).unwrap());
        let mut bits = vec![];
        let mut rest = data;
        for k in (0..=n).rev() {
            let nb = 1usize << k;
            if data.len() & nb != 0 {
                bits.push(true);
                bits.extend(crate::reference::bits::bytes_to_bits(&rest[..nb]));
                rest = &rest[nb..];
            } else {
                bits.push(false);
                bits.extend(vec![false; 8 * nb]);
            }
        }
        (t, bits)
    };
    for n in 0..=ctx.tier.pick(5usize, 7) {
        case(format!("buffer8_two_n_plus_one({n}, data) for every length 0..=2^{}", n + 1), &mut || {
            for len in 0..=(2usize << n) {
                let data: Vec<u8> = (0..len).map(|i| (i as u8).wrapping_mul(37).wrapping_add(0x81)).collect();
                let r = Value::buffer8_two_n_plus_one(n, &data);
                if len > (2 << n) - 1 {
                    if r.is_ok() {
                        return Err(format!("a slice of {len} bytes is accepted"));
                    }
                    continue;
                }
                let v = r.map_err(|e| format!("{len} bytes rejected: {e}"))?;
                let (t, bits) = buffer(n, &data);
                let want = RV::from_padded(&t, &bits, &mut 0).ok_or("reference cannot read its own bits")?;
                same(&v, &t, &want).map_err(|e| format!("{len} bytes: {e}"))?;
            }
            Ok(())
        });
    }
    case("buffer8_two_n_plus_one with n beyond the supported range".into(), &mut || {
        for n in [32usize, 64, usize::MAX] {
            if Value::buffer8_two_n_plus_one(n, &[]).is_ok() {
                return Err(format!("n = {n} is accepted"));
            }
        }
        Ok(())
    });
    // SHA-256 contexts from raw parts (buffer, count field, midstate), judged structurally and, with the
    // count field libsimplicity expects (the number of compressed 64-byte blocks), end to end through the
    // finalize jet. Value::ctx8_from_hash_engine is judged on its buffer and midstate only: its count field
    // is the number of *bytes*, which the C jets read as a number of blocks, so contexts made from an
    // engine that has compressed at least one block hash to something else. That is a defect of the helper
    // (noted in the evidence) but of no listed property: the value is a well-formed value of the type.
    let mut engine_mismatch = 0u64;
    for k in 0..=ctx.tier.pick(130usize, 400) {
        case(format!("ctx8 from raw parts after {k} bytes; sha_256_ctx_8_finalize of it; ctx8_from_hash_engine"), &mut || {
            let data: Vec<u8> = (0..k).map(|i| (i as u8).wrapping_mul(101).wrapping_add(7)).collect();
            let mut st = sha::H0;
            for b in data.chunks_exact(64) {
                st = sha::compress(st, b.try_into().unwrap());
            }
            let tail = &data[k - k % 64..];
            let (bt, bbits) = buffer(5, tail);
            let t = RT::prod(&bt, &RT::prod(&RT::word(6), &RT::word(8)));
            let expect = |count: u64| -> Result<Rc<RV>, String> {
                let mut bits = bbits.clone();
                bits.extend((0..64).rev().map(|i| count >> i & 1 == 1));
                bits.extend(crate::reference::bits::bytes_to_bits(&sha::state_bytes(st)));
                RV::from_padded(&t, &bits, &mut 0).ok_or("reference cannot read its own bits".to_string())
            };
            let blocks = (k / 64) as u64;
            let v = Value::ctx8(sha::state_bytes(st), blocks, tail).map_err(|e| e.to_string())?;
            same(&v, &t, &expect(blocks)?)?;
            same(&Value::ctx8(sha::state_bytes(st), u64::MAX - k as u64, tail).map_err(|e| e.to_string())?, &t, &expect(u64::MAX - k as u64)?)?;
            if Value::ctx8([0; 32], 0, &[0; 64]).is_ok() {
                return Err("ctx8 accepts a 64-byte buffer".into());
            }
            // comp (witness ctx) sha_256_ctx_8_finalize == SHA-256(data)
            let finalize = |v: &Value| -> Result<Value, String> {
                let prog = types::Context::with_context(|c| {
                    let w = Arc::<ConstructNode>::witness(&c, Some(v.shallow_clone()));
                    let j = Arc::<ConstructNode>::jet(&c, &Core::Sha256Ctx8Finalize);
                    Arc::<ConstructNode>::comp(&w, &j).map_err(|e| e.to_string())?.finalize_unpruned().map_err(|e| e.to_string())
                })?;
                let mut mac = BitMachine::for_program(&prog).map_err(|e| e.to_string())?;
                mac.exec(&prog, &CoreEnv::new()).map_err(|e| format!("finalize jet fails on the context: {e}"))
            };
            same(&finalize(&v)?, &RT::word(8), &RV::word_bytes(&sha::sha256(&data))).map_err(|e| format!("finalize jet on the context: {e}"))?;
            // the engine helper: buffer and midstate must be the engine's; the count field is recorded
            let mut e = sha256::Hash::engine();
            e.input(&data);
            let ev = Value::ctx8_from_hash_engine(&e);
            let got = RV::from_value(&ev)?;
            if RT::from_final(ev.ty()) != t || (got != expect(blocks)? && got != expect(blocks * 64)?) {
                return Err(format!("ctx8_from_hash_engine after {k} bytes has neither the engine's buffer and midstate with a block count nor with a byte count"));
            }
            if got != expect(blocks)? {
                engine_mismatch += 1;
            }
            Ok(())
        });
    }
    if engine_mismatch > 0 {
        out.note(format!("not a violation of C10: Value::ctx8_from_hash_engine / ctx8_from_midstate store the number of hashed BYTES in the count field of the context, libsimplicity's sha_256_ctx_8_* jets read it as the number of compressed 64-byte BLOCKS ({engine_mismatch} of the engines tried, i.e. all with >= 64 bytes, give contexts that finalize to a different hash)"));
    }
}
