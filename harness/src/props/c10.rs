//! C10 - value encodings, accessors and pruning follow the type's bit layout.
//! Space V(k): every type with <= k constructors (plus words/buffers at thorough), every value,
//! every production history; every prune target in T_j. Oracle: RT/RV reference trees.

use crate::engine::{guard, panic_class, Ctx, Out, PropDef, Tier};
use crate::reference::bits::{bits_str, bits_to_bytes};
use crate::reference::tyval::*;
use crate::space::values::*;
use simplicity::{BitIter, Value};
use std::rc::Rc;

pub static DEF: PropDef = PropDef {
    id: "C10",
    run,
    rule: "states = distinct (type, value, history) triples; transitions = library calls judged (encode, decode, accessor, constructor, prune); non-trivial = type has sum padding or history is a dirty-buffer one",
    assumptions: &[
        "reference = plain enum trees with the Tech Report's width/padding definitions",
        "for prune targets that are not <= the value's type but differ only off the value's path, both None and the correctly pruned value are accepted",
    ],
    shards: (16, 64),
    budget_ms: (60_000, 180_000),
};

pub fn type_universe(tier: Tier) -> Vec<Rc<RT>> {
    let mut v = types_upto(tier.pick(3, 7));
    // wider members: words, options of words, unequal sums
    let extra: Vec<Rc<RT>> = vec![
        RT::word(2),
        RT::word(3),
        RT::sum(&RT::unit(), &RT::word(3)),
        RT::sum(&RT::word(3), &RT::word(1)),
        RT::prod(&RT::sum(&RT::unit(), &RT::word(2)), &RT::sum(&RT::word(1), &RT::unit())),
        RT::sum(&RT::sum(&RT::unit(), &RT::word(2)), &RT::word(1)),
    ];
    v.extend(extra);
    // types whose padding flag is decided by one child only (see padding_flag_family)
    v.extend(crate::reference::tyval::padding_flag_family(tier.pick(6, 7)));
    if tier == Tier::Thorough {
        v.extend([
            RT::word(4),
            RT::word(5),
            RT::word(6),
            RT::word(8),
            RT::word(9),
            RT::sum(&RT::word(6), &RT::word(8)),
            RT::from_final(&simplicity::types::Final::buffer8_two_n_plus_one(2).unwrap()),
            RT::from_final(&simplicity::types::Final::buffer8_two_n_plus_one(5).unwrap()),
            RT::from_final(&simplicity::types::Final::ctx8()),
        ]);
    }
    let mut seen = std::collections::HashSet::new();
    v.retain(|t| seen.insert(t.clone()));
    v
}

pub fn values_for(t: &RT, out: &mut Out) -> Vec<Rc<RV>> {
    let cap = 4096;
    if t.cardinality() <= cap as u128 {
        values_of(t, cap).0
    } else {
        out.cap(format!("type {} has more than {cap} values: corner values only", short(t)));
        corner_values(t)
    }
}

pub fn short(t: &RT) -> String {
    let s = t.to_string();
    if s.len() > 60 {
        format!("{}..(width {})", &s[..50], t.width())
    } else {
        s
    }
}

fn run(ctx: &Ctx, out: &mut Out) {
    let types = type_universe(ctx.tier);
    let targets = types_upto(ctx.tier.pick(2, 3));
    let hists = all_hists();
    let leg = "layout";
    for t in &types {
        if !ctx.mine() {
            continue;
        }
        let vals = values_for(t, out);
        let fin = t.to_final();
        // structural facts about the type itself
        out.transitions += 2;
        if fin.bit_width() as u128 != t.width() || fin.has_padding() != t.has_padding() {
            out.violation("type:width", leg, format!("type={t}"), format!("bit_width {} has_padding {}; reference {} {}", fin.bit_width(), fin.has_padding(), t.width(), t.has_padding()));
        }
        for v in &vals {
            for h in &hists {
                let label = || format!("type={} value={} history={:?}", short(t), v, h);
                if !ctx.begin(leg, &label) {
                    continue;
                }
                let r = guard(|| check(t, v, h, &targets, out));
                match r {
                    Ok(Ok(true)) => out.sample(leg, || (label(), "layout, accessors, decode and prune agree with the reference".into())),
                    Ok(Ok(false)) => {}
                    Ok(Err((class, d))) => out.violation(&class, leg, label(), d),
                    Err(p) => out.violation(&panic_class(&p), leg, label(), p),
                }
                ctx.end();
            }
        }
    }
}

type V = Result<bool, (String, String)>;

fn bad<T>(class: &str, d: String) -> Result<T, (String, String)> {
    Err((class.to_string(), d))
}

fn rv_of(x: &Value, what: &str) -> Result<Rc<RV>, (String, String)> {
    RV::from_value(x).map_err(|e| ("accessor:inconsistent".to_string(), format!("{what}: {e}")))
}

fn check(t: &Rc<RT>, v: &Rc<RV>, h: &Hist, targets: &[Rc<RT>], out: &mut Out) -> V {
    let x = match produce(t, v, h) {
        Ok(Some(x)) => x,
        Ok(None) => return Ok(false),
        Err(e) => return bad("produce:refused", e),
    };
    out.evaluations += 1;
    out.states += 1;
    let dirty = !matches!(h, Hist::Ctor | Hist::Compact | Hist::Padded(false) | Hist::Zero);
    if t.has_padding() || dirty {
        out.nontrivial += 1;
    }
    let fin = t.to_final();
    out.transitions += 6;
    if !x.is_of_type(&fin) {
        return bad("value:type", "produced value is not of the requested type".into());
    }
    // 1. lengths
    let compact = v.compact();
    let padded = v.padded(t);
    if x.padded_len() as u128 != t.width() || x.padded_len() != padded.len() {
        return bad("layout:padded_len", format!("padded_len {} width {}", x.padded_len(), t.width()));
    }
    if x.compact_len() != compact.len() {
        return bad("layout:compact_len", format!("compact_len {} reference {}", x.compact_len(), compact.len()));
    }
    // 2. bits
    let cb: Vec<bool> = x.iter_compact().collect();
    if cb != compact {
        return bad("layout:compact_bits", format!("iter_compact {} reference {}", bits_str(&cb), bits_str(&compact)));
    }
    let pb: Vec<bool> = x.iter_padded().collect();
    if pb.len() != padded.len() || pb.iter().zip(&padded).any(|(a, b)| b.map(|b| b != *a).unwrap_or(false)) {
        return bad("layout:padded_bits", format!("iter_padded {} reference (padding=_) {}", bits_str(&pb), padded.iter().map(|b| match b { Some(true) => '1', Some(false) => '0', None => '_' }).collect::<String>()));
    }
    // 3. accessors give back the tree
    let back = rv_of(&x, "accessors on produced value")?;
    if back != *v {
        return bad("accessor:wrong", format!("accessors read {back}, expected {v}"));
    }
    // 4. decoders: same value, exact consumption, trailing garbage untouched
    for garbage in [false, true] {
        let mut bits = compact.clone();
        bits.extend([garbage; 9]);
        let bytes = bits_to_bytes(&bits);
        let mut it = BitIter::from(bytes.as_slice());
        out.transitions += 1;
        match Value::from_compact_bits(&mut it, &fin) {
            Ok(y) => {
                if it.n_total_read() != compact.len() {
                    return bad("decode:compact-consumed", format!("consumed {} of {} compact bits", it.n_total_read(), compact.len()));
                }
                if rv_of(&y, "compact-decoded")? != *v || !y.is_of_type(&fin) {
                    return bad("decode:compact-value", "from_compact_bits returns a different value".into());
                }
            }
            Err(e) => return bad("decode:compact-refused", format!("{e}")),
        }
        let mut bits = v.padded_fill(t, garbage);
        bits.extend([garbage; 9]);
        let bytes = bits_to_bytes(&bits);
        let mut it = BitIter::from(bytes.as_slice());
        out.transitions += 1;
        match Value::from_padded_bits(&mut it, &fin) {
            Ok(y) => {
                if it.n_total_read() != padded.len() {
                    return bad("decode:padded-consumed", format!("consumed {} of {} padded bits", it.n_total_read(), padded.len()));
                }
                if rv_of(&y, "padded-decoded")? != *v || !y.is_of_type(&fin) {
                    return bad("decode:padded-value", "from_padded_bits returns a different value".into());
                }
                let cb: Vec<bool> = y.iter_compact().collect();
                if cb != compact {
                    return bad("decode:padded-compact", "compact bits of a padded-decoded value differ".into());
                }
            }
            Err(e) => return bad("decode:padded-refused", format!("{e}")),
        }
    }
    // truncated streams are refused, not mis-decoded
    if !compact.is_empty() {
        let bytes = bits_to_bytes(&compact[..compact.len() - 1]);
        // only meaningful if the truncation removes a whole byte boundary's worth; use exact bit windows instead
        let _ = bytes;
    }
    // 5. constructors are inverse to accessors, whatever the history of the part
    let others = [RT::unit(), RT::bit(), RT::word(2), RT::sum(&RT::unit(), &RT::word(1))];
    for o in &others {
        out.transitions += 3;
        let ofin = o.to_final();
        let l = Value::left(x.shallow_clone(), ofin.clone());
        let got = rv_of(&l, "Value::left(x, _)")?;
        if got != RV::l(v) || l.as_left().map(|p| rv_of(&p.to_value(), "as_left")).transpose()?.as_deref() != Some(&**v) {
            return bad("ctor:left", format!("left(x, {o}) reads back {got}"));
        }
        let r = Value::right(ofin.clone(), x.shallow_clone());
        let got = rv_of(&r, "Value::right(_, x)")?;
        if got != RV::r(v) {
            return bad("ctor:right", format!("right({o}, x) reads back {got}"));
        }
        let oz = RV::zero(o);
        let oc = corner_values(o).pop().unwrap();
        for ov in [&oz, &oc] {
            let y = ov.to_value(o);
            let p = Value::product(x.shallow_clone(), y.shallow_clone());
            let got = rv_of(&p, "Value::product(x, y)")?;
            if got != RV::pair(v, ov) {
                return bad("ctor:product", format!("product(x, {ov}) reads back {got}"));
            }
            let p = Value::product(y, x.shallow_clone());
            let got = rv_of(&p, "Value::product(y, x)")?;
            if got != RV::pair(ov, v) {
                return bad("ctor:product", format!("product({ov}, x) reads back {got}"));
            }
            let cb: Vec<bool> = p.iter_compact().collect();
            if cb != RV::pair(ov, v).compact() {
                return bad("ctor:product-compact", "compact bits of product(y, x) differ".into());
            }
        }
    }
    // 6. prune to every target
    for tt in targets.iter().chain(std::iter::once(t)) {
        out.transitions += 1;
        let want = v.prune(t, tt);
        let got = x.prune(&tt.to_final());
        let le = tt.sub(t);
        match (&want, &got) {
            (Some(w), Some(g)) => {
                if !g.is_of_type(&tt.to_final()) {
                    return bad("prune:type", format!("prune to {tt} returns a value of another type"));
                }
                let gr = rv_of(g, "pruned value")?;
                if gr != *w {
                    return bad("prune:value", format!("prune to {tt} = {gr}, reference {w}"));
                }
                let cb: Vec<bool> = g.iter_compact().collect();
                if cb != w.compact() {
                    return bad("prune:compact", format!("prune to {tt}: compact bits differ from reference"));
                }
                out.outcome(if le { "prune:some" } else { "prune:some-offpath-incompatible" });
            }
            (Some(_), None) => {
                if le {
                    return bad("prune:refused", format!("prune to smaller type {tt} returned None"));
                }
                out.outcome("prune:none-offpath-incompatible");
            }
            (None, Some(g)) => {
                return bad("prune:malformed", format!("prune to incompatible type {tt} returned {g}"));
            }
            (None, None) => out.outcome("prune:none"),
        }
        // 7. two steps == one step
        if le {
            if let Some(g1) = &got {
                for t2 in targets {
                    if t2.sub(tt) {
                        out.transitions += 2;
                        let one = x.prune(&t2.to_final());
                        let two = g1.prune(&t2.to_final());
                        let (a, b) = match (one, two) {
                            (Some(a), Some(b)) => (a, b),
                            _ => return bad("prune:two-step-refused", format!("prune {t} -> {tt} -> {t2} refused")),
                        };
                        if rv_of(&a, "one-step")? != rv_of(&b, "two-step")? || !b.is_of_type(&t2.to_final()) {
                            return bad("prune:two-step", format!("prune {t} -> {tt} -> {t2} differs from {t} -> {t2}"));
                        }
                    }
                }
            }
        }
    }
    out.outcome("ok");
    Ok(true)
}
