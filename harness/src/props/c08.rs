//! C08 - pruning preserves commitment and behaviour and satisfies anti-DoS.

use crate::engine::{guard, panic_class, Ctx, Out, PropDef};
use crate::props::c01::sigma_p;
use crate::reference::bits::hex;
use crate::reference::cpipe::*;
use crate::reference::eval::*;
use crate::reference::tyval::*;
use crate::space::dag::*;
use crate::space::envs;
use crate::space::programs::*;
use crate::space::terms::*;
use simplicity::dag::{DagLike, InternalSharing};
use simplicity::jet::CoreEnv;
use simplicity::node::Inner;
use simplicity::{BitMachine, RedeemNode};
use std::rc::Rc;
use std::sync::Arc;

pub static DEF: PropDef = PropDef {
    id: "C08",
    run,
    rule: "states = distinct (program, witness assignment, environment) cases whose unpruned run succeeds; transitions = prune / re-run / C anti-DoS / re-prune steps judged; non-trivial = program contains a case or assertion node",
    assumptions: &[
        "the C leg re-decodes the serialised pruned program with libsimplicity and runs evalTCOExpression with CHECK_ALL in the same marshalled environment",
        "programs containing fail nodes are excluded from the C leg (C refuses them at decode)",
    ],
    shards: (32, 128),
    budget_ms: (60_000, 180_000),
};

fn exec(p: &RedeemNode, fam: Fam, env: &envs::Env) -> Result<simplicity::Value, String> {
    let mut mac = BitMachine::for_program(p).map_err(|e| format!("limits: {e}"))?;
    match fam {
        Fam::Core => mac.exec(p, &CoreEnv::new()).map_err(|e| e.to_string()),
        Fam::Elements => mac.exec(p, env).map_err(|e| e.to_string()),
    }
}
fn prune(p: &RedeemNode, fam: Fam, env: &envs::Env) -> Result<Arc<RedeemNode>, String> {
    match fam {
        Fam::Core => p.prune(&CoreEnv::new()).map_err(|e| e.to_string()),
        Fam::Elements => p.prune(env).map_err(|e| e.to_string()),
    }
}

/// the pruning oracle chain on one redeem program; Ok(false) if the unpruned run fails
pub fn check_pruning(r: &Arc<RedeemNode>, fam: Fam, env: &envs::Env, has_fail: bool, out: &mut Out) -> Result<bool, (String, String)> {
    out.transitions += 1;
    let before = match exec(r, fam, env) {
        Ok(v) => v,
        Err(_) => {
            // pruning must then fail too (it runs the program)
            if prune(r, fam, env).is_ok() {
                return Err(("prune:succeeds-on-failing-run".into(), "the unpruned run fails but prune returns a program".into()));
            }
            return Ok(false);
        }
    };
    out.transitions += 4;
    let p = prune(r, fam, env).map_err(|e| ("prune:fails".to_string(), format!("the unpruned run succeeds but prune fails: {e}")))?;
    if p.cmr() != r.cmr() {
        return Err(("prune:cmr".into(), format!("CMR changed from {} to {}", r.cmr(), p.cmr())));
    }
    let after = exec(&p, fam, env).map_err(|e| ("prune:pruned-run-fails".to_string(), format!("pruned program fails: {e}")))?;
    let (cb, ca): (Vec<bool>, Vec<bool>) = (before.iter_compact().collect(), after.iter_compact().collect());
    if cb != ca || !after.is_of_type(&p.arrow().target) {
        return Err(("prune:output".into(), "pruned program returns a different output".into()));
    }
    // every witness is of its node's target type; no case with an unexecuted branch remains
    for item in p.as_ref().post_order_iter::<InternalSharing>() {
        if let Inner::Witness(v) = item.node.inner() {
            if !v.is_of_type(&item.node.arrow().target) {
                return Err(("prune:witness-type".into(), format!("a pruned witness is {} but its node's target is {}", v.ty(), item.node.arrow().target)));
            }
        }
    }
    // idempotence
    let pp = prune(&p, fam, env).map_err(|e| ("prune:reprune-fails".to_string(), e))?;
    if pp.ihr() != p.ihr() || pp.amr() != p.amr() || pp.to_vec_with_witness() != p.to_vec_with_witness() {
        let show = |x: &RedeemNode| {
            let (a, b) = x.to_vec_with_witness();
            let nodes: Vec<String> = x.post_order_iter::<InternalSharing>().map(|i| format!("{}:{}", i.node.inner(), i.node.arrow())).collect();
            format!("{} / {} [{}]", crate::reference::bits::hex(&a), crate::reference::bits::hex(&b), nodes.join("; "))
        };
        return Err(("prune:not-idempotent".into(), format!("pruning the pruned program changes it: pruned once = {}; pruned twice = {}", show(&p), show(&pp))));
    }
    // round trip of the pruned program through its own encoding
    let (pb, wb) = p.to_vec_with_witness();
    match crate::props::c01::decode_redeem(fam, &pb, &wb) {
        Ok(d) if d.ihr() == p.ihr() && d.amr() == p.amr() => {}
        Ok(_) => return Err(("prune:reencode".into(), "pruned program decodes to a different IHR or AMR (its in-memory types are not the ones its serialisation has)".into())),
        Err(e) => return Err(("prune:reencode".into(), format!("pruned program's encoding {} / {} does not decode: {e}", hex(&pb), hex(&wb)))),
    }
    // libsimplicity with all anti-DoS checks
    if fam == Fam::Elements && !has_fail {
        out.transitions += 1;
        let (cv, cp) = c_check(&pb, &wb);
        match (cv, cp) {
            (CVerdict::Accept(roots), Some(mut cp)) => {
                if roots.cmr != p.cmr().to_byte_array() || roots.ihr != p.ihr().to_byte_array() || roots.amr != p.amr().to_byte_array() {
                    return Err(("prune:c-roots".into(), "C computes different roots for the pruned program".into()));
                }
                let code = cp.eval(CHECK_ALL, Some(env.c_tx_env()));
                if code != 0 {
                    return Err((format!("prune:c-{}", err_name(code)), format!("libsimplicity with all anti-DoS checks returns {} for the pruned program {} / {}", err_name(code), hex(&pb), hex(&wb))));
                }
                // and the unpruned program, if it had anything to prune, is refused by the same checks
                out.outcome("c-antidos:ok");
            }
            (CVerdict::Reject(c, stage), _) => return Err((format!("prune:c-rejects-{}", err_name(c)), format!("libsimplicity rejects the pruned program at {stage}: {}", err_name(c)))),
            _ => unreachable!(),
        }
    }
    out.outcome(if p.ihr() == r.ihr() { "nothing-to-prune" } else { "pruned" });
    Ok(true)
}

fn run(ctx: &Ctx, out: &mut Out) {
    let env = envs::build(&envs::base_env());
    leg_population(ctx, out, &env.env);
    leg_gadgets(ctx, out, &env.env);
    leg_shared_with_hidden(ctx, out, &env.env);
}

/// A node shared between the branch that pruning hides and the part that stays (finding F16 needs 6
/// nodes, which the quick population does not reach): comp witness (case (take u) X) and its mirror,
/// with X one of five case-like nodes over the same `unit` node u.
fn leg_shared_with_hidden(ctx: &Ctx, out: &mut Out, env: &envs::Env) {
    let leg = "shared-with-hidden";
    if !ctx.mine() {
        return;
    }
    let n = |sym, l: usize, r: usize| Node { sym, l: l as u8, r: r as u8 };
    for fam in [Fam::Core, Fam::Elements] {
        for x in [n(Sym::Case, 1, 1), n(Sym::Case, 1, 2), n(Sym::Case, 2, 1), n(Sym::AssertL(7), 1, 0), n(Sym::AssertR(7), 1, 0)] {
            for mirror in [false, true] {
                let (a, b) = if mirror { (3, 2) } else { (2, 3) };
                // selector = a witness, or (the pruned program then has no witness node at all) a constant
                // pair (inj (pair unit unit)) unit choosing the side that keeps `take u`
                let mut dags: Vec<Dag> = vec![vec![n(Sym::Witness, 0, 0), n(Sym::Unit, 0, 0), n(Sym::Take, 1, 0), x, n(Sym::Case, a, b), n(Sym::Comp, 0, 4)]];
                let _ = &mut dags;
                for inj in [Sym::InjL, Sym::InjR] {
                    // 0=unit' 1=u 2=take(1) 3=x 4=case 5=pair(0,0) 6=inj(5) 7=pair(6,0) 8=comp(7,4)
                    let shift = |nd: Node| if nd.sym.arity() == 0 { nd } else { Node { sym: nd.sym, l: nd.l, r: nd.r } };
                    dags.push(vec![n(Sym::Unit, 0, 0), n(Sym::Unit, 0, 0), n(Sym::Take, 1, 0), shift(x), n(Sym::Case, a, b), n(Sym::Pair, 0, 0), n(inj, 5, 0), n(Sym::Pair, 6, 0), n(Sym::Comp, 7, 4)]);
                }
                // a constant selector whose payload has a free summand that only the hidden branch pins
                // (through the shared u): comp (pair (injl (inj unit')) unit') (case (take u) (take (comp (inj' P) u)))
                if x.sym == Sym::Case && x.l == 1 && x.r == 1 && !mirror {
                    for (inner, other) in [(Sym::InjL, Sym::InjR), (Sym::InjR, Sym::InjL)] {
                        for payload_pair in [true, false] {
                            let payload = if payload_pair { n(Sym::Pair, 3, 3) } else { n(Sym::InjL, 3, 0) };
                            dags.push(vec![
                                n(Sym::Unit, 0, 0),  // 0 unit'
                                n(Sym::Unit, 0, 0),  // 1 u
                                n(Sym::Take, 1, 0),  // 2 kept
                                n(Sym::Unit, 0, 0),  // 3 u_b
                                payload,             // 4 P
                                n(other, 4, 0),      // 5 inj' P
                                n(Sym::Comp, 5, 1),  // 6
                                n(Sym::Take, 6, 0),  // 7 hidden
                                n(Sym::Case, 2, 7),  // 8
                                n(inner, 0, 0),      // 9 inj unit'
                                n(Sym::InjL, 9, 0),  // 10
                                n(Sym::Pair, 10, 0), // 11 selector
                                n(Sym::Comp, 11, 8), // 12
                            ]);
                        }
                    }
                }
                for dag in dags {
                    let Some(p) = Prog::new(&dag, fam) else { continue };
                    let (assignments, _) = p.witness_assignments(6, 64);
                    for wit in &assignments {
                        let label = || format!("{} {}", p.render(), wit_str(wit));
                        if !ctx.begin(leg, &label) {
                            continue;
                        }
                        let Ok(r) = p.to_redeem(wit) else {
                            ctx.end();
                            continue;
                        };
                        match guard(|| check_pruning(&r, fam, env, false, out)) {
                            Ok(Ok(true)) => {
                                out.evaluations += 1;
                                out.states += 1;
                                out.nontrivial += 1;
                                out.sample(leg, || (label(), "prune ok: same CMR and output, witnesses typed, idempotent, own encoding decodes to the same identity and annotated roots".into()));
                            }
                            Ok(Ok(false)) => out.outcome("unpruned-run-fails"),
                            Ok(Err((c, d))) => out.violation(&c, leg, label(), d),
                            Err(pn) => out.violation(&panic_class(&pn), leg, label(), pn),
                        }
                        ctx.end();
                    }
                }
            }
        }
    }
}

fn leg_population(ctx: &Ctx, out: &mut Out, env: &envs::Env) {
    let leg = "population";
    for fam in [Fam::Core, Fam::Elements] {
        let nmax = ctx.tier.pick(4, 6);
        for n in 1..=nmax {
            let alpha = sigma_p(fam);
            let mut dags: Vec<Dag> = vec![];
            enum_dags(n, &alpha, 3, &mut || ctx.mine(), &mut |d| dags.push(d.to_vec()));
            for dag in &dags {
                let Some(p) = Prog::new(dag, fam) else { continue };
                if p.has(|s| s == Sym::Disc1) {
                    continue;
                }
                let has_fail = p.has(|s| matches!(s, Sym::Fail(_)));
                let (assignments, _) = p.witness_assignments(4, ctx.tier.pick(32, 256));
                for wit in &assignments {
                    let label = || format!("{} {}", p.render(), wit_str(wit));
                    if !ctx.begin(leg, &label) {
                        continue;
                    }
                    let Ok(r) = p.to_redeem(wit) else {
                        ctx.end();
                        continue;
                    };
                    match guard(|| check_pruning(&r, fam, env, has_fail, out)) {
                        Ok(Ok(ran)) => {
                            if ran {
                                out.evaluations += 1;
                                out.states += 1;
                                if p.has(|s| matches!(s, Sym::Case | Sym::AssertL(_) | Sym::AssertR(_))) {
                                    out.nontrivial += 1;
                                    out.sample(leg, || (label(), "prune ok: same CMR and output, witnesses typed, idempotent, accepted by C with all anti-DoS checks".into()));
                                }
                            } else {
                                out.outcome("unpruned-run-fails");
                            }
                        }
                        Ok(Err((c, d))) => out.violation(&c, leg, label(), d),
                        Err(e) => out.violation(&panic_class(&e), leg, label(), e),
                    }
                    ctx.end();
                }
            }
        }
    }
}

/// selector gadgets: a witness of sum type feeding a case, shared and nested
fn sel(sum: &Rc<RT>, v: &Rc<RV>, x: &Rc<Term>, y: &Rc<Term>, src: &Rc<RT>) -> Rc<Term> {
    // comp (pair (witness v : src -> A+B) unit) (case x y) : src -> T   with x : A x 1 -> T, y : B x 1 -> T
    let one = RT::unit();
    let w = Term::new(Tm::Witness(v.clone()), src, sum);
    let u = Term::new(Tm::Unit, src, &one);
    let s1 = RT::prod(sum, &one);
    let pr = Term::new(Tm::Pair(w, u), src, &s1);
    let cs = Term::new(Tm::Case(x.clone(), y.clone()), &s1, &x.tgt);
    Term::new(Tm::Comp(pr, cs), src, &x.tgt)
}

fn branch_menu(a: &Rc<RT>, depth: usize) -> Vec<Rc<Term>> {
    // terms of type a x 1 -> 1
    let one = RT::unit();
    let a1 = RT::prod(a, &one);
    let mut v = vec![Term::new(Tm::Unit, &a1, &one)];
    // take f with f : a -> 1 consuming the structure of a
    match &**a {
        RT::Sum(l, r) if **l == RT::Unit && **r == RT::Unit => {
            v.push(Term::new(Tm::Take(Term::new(Tm::Jet("verify"), a, &one)), &a1, &one));
        }
        _ if a.as_word() == Some(3) => {
            // comp (take complement_8) unit
            let c = Term::new(Tm::Jet("complement_8"), a, a);
            let t = Term::new(Tm::Take(c), &a1, a);
            let u = Term::new(Tm::Unit, a, &one);
            v.push(Term::new(Tm::Comp(t, u), &a1, &one));
        }
        _ => {}
    }
    // nested selector under drop
    if depth > 0 {
        let bit = RT::bit();
        for b in [false, true] {
            for x in branch_menu(&RT::unit(), 0).iter().take(1) {
                for y in branch_menu(&RT::unit(), 0).iter().take(1) {
                    let sum = RT::sum(&one, &one);
                    let s = sel(&sum, &RV::bit(b), x, y, &one);
                    v.push(Term::new(Tm::Drop(s), &a1, &one));
                }
            }
        }
        let _ = bit;
    }
    v
}

fn leg_gadgets(ctx: &Ctx, out: &mut Out, env: &envs::Env) {
    let leg = "gadgets";
    let one = RT::unit();
    let depth = ctx.tier.pick(1, 2);
    let parts: Vec<Rc<RT>> = vec![RT::unit(), RT::bit(), RT::word(3)];
    for fam in [Fam::Core, Fam::Elements] {
        let mut b = Builder::with_family(fam);
        for a in &parts {
            for bb in &parts {
                if !ctx.mine() {
                    continue;
                }
                let sum = RT::sum(a, bb);
                let xs = branch_menu(a, depth);
                let ys = branch_menu(bb, depth);
                let vals = if sum.cardinality() <= 8 { values_of(&sum, 8).0 } else { corner_values(&sum) };
                let mut progs: Vec<(String, Rc<Term>)> = vec![];
                for x in &xs {
                    for y in &ys {
                        for v in &vals {
                            let g = sel(&sum, v, x, y, &one);
                            progs.push(("single".into(), g.clone()));
                            // the same case node under two parents driven with different witnesses
                            for v2 in &vals {
                                let g2 = sel(&sum, v2, x, y, &one);
                                let pr = Term::new(Tm::Pair(g.clone(), g2), &one, &RT::prod(&one, &one));
                                let u = Term::new(Tm::Unit, &RT::prod(&one, &one), &one);
                                progs.push(("shared-case".into(), Term::new(Tm::Comp(pr, u), &one, &one)));
                            }
                        }
                    }
                }
                for (kind, t) in progs {
                    let label = || format!("[{}] {kind}: {}", fam.name(), t.describe());
                    if !ctx.begin(leg, &label) {
                        continue;
                    }
                    let r = match b.redeem(&t) {
                        Ok(r) => r,
                        Err(e) => {
                            out.violation("gadget:build", leg, label(), e);
                            ctx.end();
                            continue;
                        }
                    };
                    match guard(|| check_pruning(&r, fam, env, false, out)) {
                        Ok(Ok(ran)) => {
                            if ran {
                                out.evaluations += 1;
                                out.states += 1;
                                out.nontrivial += 1;
                                out.sample(leg, || (label(), "prune ok (CMR, output, witness types, idempotence, C anti-DoS)".into()));
                            } else {
                                out.outcome("unpruned-run-fails");
                            }
                        }
                        Ok(Err((c, d))) => out.violation(&c, leg, label(), d),
                        Err(e) => out.violation(&panic_class(&e), leg, label(), e),
                    }
                    ctx.end();
                }
            }
        }
    }
}
