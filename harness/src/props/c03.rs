//! C03 - validity, Merkle roots and cost agree with libsimplicity.

use crate::engine::{guard, panic_class, Ctx, Out, PropDef, Tier};
use crate::props::c01::{decode_redeem, sigma_p};
use crate::reference::bits::hex;
use crate::reference::cpipe::*;
use crate::space::dag::*;
use crate::space::programs::*;
use simplicity::Cost;

pub static DEF: PropDef = PropDef {
    id: "C03",
    run,
    rule: "states = distinct (program bytes, witness bytes) pairs given to both implementations; transitions = pipeline runs compared (2 per state); non-trivial = accepted by at least one side, or a mutation of an accepted pair",
    assumptions: &[
        "C side = vendored libsimplicity driven stage by stage (decode, type inference, witness, AMR, IHR uniqueness, analyseBounds with unbounded budget, 1->1 check)",
        "C results ExecMemory / ExecBudget / Malloc mean 'outside libsimplicity's limits': counted and skipped",
        "a C rejection with FailCode is the designed exception",
    ],
    shards: (32, 128),
    budget_ms: (60_000, 180_000),
};

#[derive(Debug, Clone, PartialEq, Eq)]
enum RustV {
    Accept { cmr: [u8; 32], amr: [u8; 32], ihr: [u8; 32], cost: Cost },
    Reject(String),
}

fn rust_check(prog: &[u8], wit: &[u8]) -> RustV {
    match decode_redeem(Fam::Elements, prog, wit) {
        Ok(p) => RustV::Accept { cmr: p.cmr().to_byte_array(), amr: p.amr().to_byte_array(), ihr: p.ihr().to_byte_array(), cost: p.bounds().cost },
        Err(e) => {
            let s = format!("{e:?}");
            RustV::Reject(s.split(['(', '{', ' ']).take(2).collect::<Vec<_>>().join(":"))
        }
    }
}

/// compare the two implementations on one pair; returns whether anyone accepted
pub fn compare(prog: &[u8], wit: &[u8], out: &mut Out) -> Result<bool, (String, String)> {
    out.transitions += 2;
    let (cv, _p) = c_check(prog, wit);
    let rv = rust_check(prog, wit);
    match (&cv, &rv) {
        (CVerdict::Accept(c), RustV::Accept { cmr, amr, ihr, cost }) => {
            if c.cmr != *cmr {
                return Err(("roots:cmr".into(), format!("C {} Rust {}", hex(&c.cmr), hex(cmr))));
            }
            if c.amr != *amr {
                return Err(("roots:amr".into(), format!("C {} Rust {}", hex(&c.amr), hex(amr))));
            }
            if c.ihr != *ihr {
                return Err(("roots:ihr".into(), format!("C {} Rust {}", hex(&c.ihr), hex(ihr))));
            }
            if Cost::from_milliweight(c.cost) != *cost {
                return Err(("cost".into(), format!("C {} Rust {}", c.cost, cost)));
            }
            out.outcome("both-accept");
            Ok(true)
        }
        (CVerdict::Reject(code, stage), RustV::Accept { .. }) => {
            let name = err_name(*code);
            match name {
                "FailCode" => {
                    out.outcome("c-rejects-fail-node(designed)");
                    Ok(false)
                }
                "ExecMemory" | "ExecBudget" | "Malloc" => {
                    out.outcome("outside-c-limits");
                    Ok(true)
                }
                _ => Err((format!("accept:rust-only:c-{name}"), format!("Rust accepts, C rejects at stage {stage} with {name}"))),
            }
        }
        (CVerdict::Accept(_), RustV::Reject(e)) => Err((format!("accept:c-only:rust-{e}"), format!("C accepts, Rust rejects with {e}"))),
        (CVerdict::Reject(code, _), RustV::Reject(_)) => {
            out.outcome(&format!("both-reject:c-{}", err_name(*code)));
            Ok(false)
        }
    }
}

fn run(ctx: &Ctx, out: &mut Out) {
    leg_bytes(ctx, out);
    leg_population(ctx, out);
    leg_jets(ctx, out);
    leg_widths(ctx, out);
    leg_terms(ctx, out);
}

fn one(ctx: &Ctx, out: &mut Out, leg: &str, prog: &[u8], wit: &[u8], origin: &str) -> bool {
    let label = || format!("prog={} wit={}{}", hex(prog), hex(wit), origin);
    if !ctx.begin(leg, &label) {
        return false;
    }
    out.evaluations += 1;
    out.states += 1;
    let r = guard(|| compare(prog, wit, out));
    let mut accepted = false;
    match r {
        Ok(Ok(a)) => {
            accepted = a;
            if a {
                out.nontrivial += 1;
                out.sample(leg, || (label(), "C and Rust agree (verdict, CMR, AMR, IHR, cost)".into()));
            }
        }
        Ok(Err((c, d))) => out.violation(&c, leg, label(), d),
        Err(p) => out.violation(&panic_class(&p), leg, label(), p),
    }
    ctx.end();
    accepted
}

fn leg_bytes(ctx: &Ctx, out: &mut Out) {
    let leg = "bytes";
    // (all 4-byte strings x 4 splits is 1.7e10 pairs, about 3 hours on 16 cores: not run)
    let maxlen = ctx.tier.pick(2usize, 3);
    for len in 1..=maxlen {
        let total: u64 = 1 << (8 * len);
        let chunk: u64 = if len >= 4 { 65_536 } else { 256 };
        let mut base = 0;
        while base < total {
            if ctx.mine() {
                for x in base..(base + chunk).min(total) {
                    let bytes: Vec<u8> = (0..len).map(|i| (x >> (8 * (len - 1 - i))) as u8).collect();
                    for k in 1..=len {
                        one(ctx, out, leg, &bytes[..k], &bytes[k..], "");
                    }
                }
            }
            base += chunk;
        }
    }
}

/// single-deviation mutations of an accepted pair
pub fn mutations(prog: &[u8], wit: &[u8]) -> Vec<(Vec<u8>, Vec<u8>, String)> {
    let mut v = vec![];
    for i in 0..prog.len() * 8 {
        let mut p = prog.to_vec();
        p[i / 8] ^= 0x80 >> (i % 8);
        v.push((p, wit.to_vec(), format!(" [flip prog bit {i}]")));
    }
    for i in 0..wit.len() * 8 {
        let mut w = wit.to_vec();
        w[i / 8] ^= 0x80 >> (i % 8);
        v.push((prog.to_vec(), w, format!(" [flip wit bit {i}]")));
    }
    for k in 1..prog.len() {
        v.push((prog[..k].to_vec(), wit.to_vec(), format!(" [prog prefix {k}]")));
    }
    for k in 0..wit.len() {
        v.push((prog.to_vec(), wit[..k].to_vec(), format!(" [wit prefix {k}]")));
    }
    for b in [0x00u8, 0x01, 0x80, 0xff] {
        let mut p = prog.to_vec();
        p.push(b);
        v.push((p, wit.to_vec(), format!(" [prog + {b:02x}]")));
        let mut w = wit.to_vec();
        w.push(b);
        v.push((prog.to_vec(), w, format!(" [wit + {b:02x}]")));
    }
    v
}

fn leg_population(ctx: &Ctx, out: &mut Out) {
    let leg = "population";
    let fam = Fam::Elements;
    let nmax = ctx.tier.pick(5, 6);
    for n in 1..=nmax {
        let alpha = sigma_p(fam);
        let mut dags: Vec<Dag> = vec![];
        enum_dags(n, &alpha, 3, &mut || ctx.mine(), &mut |d| dags.push(d.to_vec()));
        for dag in &dags {
            let Some(p) = Prog::new(dag, fam) else { continue };
            if p.has(|s| s == Sym::Disc1) {
                continue;
            }
            let (assignments, _) = p.witness_assignments(4, ctx.tier.pick(16, 128));
            for wit in &assignments {
                let Ok(r) = p.to_redeem(wit) else { continue };
                let (pb, wb) = r.to_vec_with_witness();
                let origin = format!(" [{} {}]", p.render(), wit_str(wit));
                let acc = one(ctx, out, leg, &pb, &wb, &origin);
                // deviations (d = 1) of every encoding; mutate only around accepted/fail-node members
                if acc && (n <= 4 || ctx.tier == Tier::Thorough) {
                    for (mp, mw, what) in mutations(&pb, &wb) {
                        one(ctx, out, "deviations", &mp, &mw, &format!("{what} of{origin}"));
                        // two simultaneous deviations (thorough, small programs)
                        if ctx.tier == Tier::Thorough && n <= 3 {
                            for (mp2, mw2, what2) in mutations(&mp, &mw) {
                                one(ctx, out, "deviations2", &mp2, &mw2, &format!("{what}{what2} of{origin}"));
                            }
                        }
                    }
                }
            }
        }
    }
}

/// one witness of every bit width (the roots hash the witness bits with a hand-rolled SHA-256 padding)
fn leg_widths(ctx: &Ctx, out: &mut Out) {
    use crate::props::c01::{width_host, width_values};
    let leg = "witness-widths";
    let fam = Fam::Elements;
    let max = ctx.tier.pick(1100, 2100);
    for bits in 1..=max {
        if !ctx.mine() {
            continue;
        }
        let (dag, w, t) = width_host(bits);
        let Some(p) = Prog::new(&dag, fam) else {
            out.violation("widths:host", leg, format!("{bits} bits"), "host does not type-check in the reference".into());
            continue;
        };
        for v in width_values(&t) {
            let mut wit = vec![None; dag.len()];
            wit[w] = Some(v.clone());
            let Ok(r) = p.to_redeem(&wit) else {
                out.violation("widths:host", leg, format!("{bits} bits"), "host does not finalise".into());
                continue;
            };
            let (pb, wb) = r.to_vec_with_witness();
            let acc = one(ctx, out, leg, &pb, &wb, &format!(" [witness of {bits} bits]"));
            if acc {
                out.count("widths:accepted-by-both", 1);
            }
        }
    }
}

/// comp (comp witness j) unit for every Elements jet, witness on corner values
fn leg_jets(ctx: &Ctx, out: &mut Out) {
    let leg = "jets";
    let fam = Fam::Elements;
    for j in 0..fam.n_jets() as u16 {
        if !ctx.mine() {
            continue;
        }
        let dag: Dag = vec![
            Node { sym: Sym::Witness, l: 0, r: 0 },
            Node { sym: Sym::Jet(j), l: 0, r: 0 },
            Node { sym: Sym::Comp, l: 0, r: 1 },
            Node { sym: Sym::Unit, l: 0, r: 0 },
            Node { sym: Sym::Comp, l: 2, r: 3 },
        ];
        let Some(p) = Prog::new(&dag, fam) else {
            out.violation("jets:untypable", leg, render(&dag, fam), "reference cannot type the one-jet program".into());
            continue;
        };
        let (assignments, _) = p.witness_assignments(4, 8);
        for wit in assignments.iter().take(ctx.tier.pick(2, 8)) {
            let Ok(r) = p.to_redeem(wit) else {
                out.violation("jets:build", leg, p.render(), "finalize_unpruned failed".into());
                continue;
            };
            let (pb, wb) = r.to_vec_with_witness();
            one(ctx, out, leg, &pb, &wb, &format!(" [{}]", fam.jet(j)));
        }
    }
}

/// The disconnect and crossed-profile terms of C05/C07, pinned to their principal types and closed to
/// unit -> unit programs: validity, roots and in particular the static cost bound against libsimplicity
/// (the population's disconnect nodes have branches of width 0 on both sides).
fn leg_terms(ctx: &Ctx, out: &mut Out) {
    use crate::props::c05::{asymmetric_terms, disconnect_terms, inputs_of};
    use crate::props::c06::pinned_expression;
    use crate::reference::eval::{Term, Tm};
    use crate::reference::tyval::RT;
    use crate::space::terms::Builder;
    let leg = "terms";
    fn has_fail(t: &Term) -> bool {
        match &t.tm {
            Tm::Fail(_) => true,
            Tm::InjL(s) | Tm::InjR(s) | Tm::Take(s) | Tm::Drop(s) | Tm::AssertL(s, _) | Tm::AssertR(_, s) => has_fail(s),
            Tm::Comp(a, b) | Tm::Case(a, b) | Tm::Pair(a, b) | Tm::Disconnect(a, b) => has_fail(a) || has_fail(b),
            _ => false,
        }
    }
    let mut b = Builder::with_family(Fam::Elements);
    let mut terms: Vec<(String, std::rc::Rc<Term>)> = disconnect_terms(ctx.tier).into_iter().filter(|t| !has_fail(t)).map(|t| (t.describe(), t)).collect();
    terms.extend(asymmetric_terms());
    for (name, t) in terms {
        if !ctx.mine() {
            continue;
        }
        // one input is enough: roots and bounds do not depend on it beyond the witness hash
        let Some(input) = inputs_of(&t.src).into_iter().next() else { continue };
        let expr = pinned_expression(&t, &input);
        let unit_ty = RT::unit();
        let prog = Term::new(Tm::Comp(expr.clone(), Term::new(Tm::Unit, &expr.tgt, &unit_ty)), &unit_ty, &unit_ty);
        let r = match guard(|| b.redeem(&prog)) {
            Ok(Ok(r)) => r,
            Ok(Err(_)) => continue,
            Err(p) => {
                out.violation(&panic_class(&p), leg, name.clone(), p);
                continue;
            }
        };
        // only principally typed programs mean the same thing to both sides
        b.pin = false;
        let free = guard(|| b.redeem(&prog));
        b.pin = true;
        if !matches!(free, Ok(Ok(f)) if f.ihr() == r.ihr() && f.amr() == r.amr() && f.to_vec_with_witness() == r.to_vec_with_witness()) {
            out.count("terms:skipped(annotation is not the principal typing)", 1);
            continue;
        }
        let (pb, wb) = r.to_vec_with_witness();
        if one(ctx, out, leg, &pb, &wb, &format!(" [{name}]")) {
            out.count("terms:accepted-by-both", 1);
        }
    }
}
