//! C17 - the human-readable encoding round-trips.

use crate::engine::{guard, panic_class, Ctx, Out, PropDef, Tier};
use crate::props::c01::sigma_p;
use crate::props::c09::ref_cmrs;
use crate::reference::bits::hex;
use crate::reference::merkle::Merkle;
use crate::reference::tyval::RT;
use crate::space::dag::*;
use crate::space::programs::*;
use simplicity::dag::{DagLike, InternalSharing};
use simplicity::human_encoding::Forest;
use simplicity::jet::Core;
use std::sync::Arc;

pub static DEF: PropDef = PropDef {
    id: "C17",
    run,
    rule: "states = distinct (program, rendering) texts + distinct token strings; transitions = render/parse/re-render/re-parse calls judged; non-trivial = text that parses to a program, or a program with witness/assertion/disconnect/fail/word/jet",
    assumptions: &[
        "every parse runs twice in one process (fresh RandomState each time); a difference between the two results is a nondeterminism error of the machinery/subject and is reported as such",
        "programs with a disconnect that carries an attached branch are excluded (commitment-time forms have no branch, see C01/F13)",
    ],
    shards: (32, 128),
    budget_ms: (60_000, 180_000),
};

fn ty_text(t: &RT) -> String {
    if let Some(n) = t.as_word() {
        return if n == 0 { "2".into() } else { format!("2^{}", 1u64 << n) };
    }
    match t {
        RT::Unit => "1".into(),
        RT::Sum(a, b) => format!("({} + {})", ty_text(a), ty_text(b)),
        RT::Prod(a, b) => format!("({} * {})", ty_text(a), ty_text(b)),
    }
}

fn sym_text(s: Sym, fam: Fam) -> String {
    match s {
        Sym::Iden => "iden".into(),
        Sym::Unit => "unit".into(),
        Sym::Witness => "witness".into(),
        Sym::Fail(e) => format!("fail 0x{}", hex(&[e; 64])),
        Sym::Word(n, v) => {
            let bits: String = (0..(1usize << n)).rev().map(|b| if v >> b & 1 == 1 { '1' } else { '0' }).collect();
            format!("const 0b{bits}")
        }
        Sym::Jet(j) => format!("jet_{}", fam.jet(j)),
        Sym::InjL => "injl".into(),
        Sym::InjR => "injr".into(),
        Sym::Take => "take".into(),
        Sym::Drop => "drop".into(),
        Sym::AssertL(_) => "assertl".into(),
        Sym::AssertR(_) => "assertr".into(),
        Sym::Disc1 | Sym::Disc2 => "disconnect".into(),
        Sym::Comp => "comp".into(),
        Sym::Case => "case".into(),
        Sym::Pair => "pair".into(),
    }
}

#[derive(Clone, Copy, PartialEq, Eq, Debug)]
enum Hidden {
    /// `#<64 hex digits>`
    Literal,
    /// `#{ fail 0x.. }` - an expression standing for the hidden branch
    Expr,
}

/// render the DAG as source text; `inline[i]` substitutes node i at its use sites
fn render_text(p: &Prog, inline: &[bool], ascribe: bool, hidden: Hidden) -> String {
    let n = p.dag.len();
    fn expr(p: &Prog, i: usize, inline: &[bool], hidden: Hidden, top: bool) -> String {
        let nd = p.dag[i];
        let arg = |k: u8| -> String {
            let k = k as usize;
            if inline[k] {
                format!("({})", expr(p, k, inline, hidden, false))
            } else if k == p.dag.len() - 1 {
                "main".into()
            } else {
                format!("n{k}")
            }
        };
        let hid = |h: u8| match hidden {
            Hidden::Literal => format!("#{}", hex(&[h; 32])),
            Hidden::Expr => format!("#{{fail 0x{}}}", hex(&[h; 64])),
        };
        let _ = top;
        match nd.sym {
            Sym::AssertL(h) => format!("assertl {} {}", arg(nd.l), hid(h)),
            Sym::AssertR(h) => format!("assertr {} {}", hid(h), arg(nd.l)),
            Sym::Disc1 => format!("disconnect {} ?hole{i}", arg(nd.l)),
            s => match s.arity() {
                0 => sym_text(s, p.fam),
                1 => format!("{} {}", sym_text(s, p.fam), arg(nd.l)),
                _ => format!("{} {} {}", sym_text(s, p.fam), arg(nd.l), arg(nd.r)),
            },
        }
    }
    let mut s = String::new();
    for i in 0..n {
        if inline[i] && i != n - 1 {
            continue;
        }
        let name = if i == n - 1 { "main".to_string() } else { format!("n{i}") };
        s.push_str(&format!("{name} := {}", expr(p, i, inline, hidden, true)));
        if ascribe {
            s.push_str(&format!(" : {} -> {}", ty_text(&p.arrows[i].0), ty_text(&p.arrows[i].1)));
        }
        s.push('\n');
    }
    s
}

/// Inlining a node that is used twice writes its expression twice, i.e. turns one (monomorphically
/// typed) shared node into two independent ones. The rendering still means the original program only
/// if every copy keeps the original arrow under principal typing of the expanded DAG.
fn inlining_preserves_types(p: &Prog, inline: &[bool]) -> bool {
    fn copy(p: &Prog, i: usize, inline: &[bool], memo: &mut Vec<Option<usize>>, out: &mut Dag, origin: &mut Vec<usize>) -> usize {
        if !inline[i] {
            if let Some(k) = memo[i] {
                return k;
            }
        }
        let nd = p.dag[i];
        let (mut l, mut r) = (0, 0);
        if nd.sym.arity() >= 1 {
            l = copy(p, nd.l as usize, inline, memo, out, origin);
        }
        if nd.sym.arity() >= 2 {
            r = copy(p, nd.r as usize, inline, memo, out, origin);
        }
        out.push(Node { sym: nd.sym, l: l as u8, r: r as u8 });
        origin.push(i);
        memo[i] = Some(out.len() - 1);
        out.len() - 1
    }
    let n = p.dag.len();
    let mut uses = vec![0usize; n];
    for nd in &p.dag {
        if nd.sym.arity() >= 1 {
            uses[nd.l as usize] += 1;
        }
        if nd.sym.arity() >= 2 {
            uses[nd.r as usize] += 1;
        }
    }
    if !(0..n).any(|i| inline[i] && uses[i] >= 2) {
        return true;
    }
    let (mut out, mut origin) = (vec![], vec![]);
    copy(p, n - 1, inline, &mut vec![None; n], &mut out, &mut origin);
    if out.len() > 200 {
        return false;
    }
    match Prog::new(&out, p.fam) {
        Some(q) => q.arrows.iter().zip(&origin).all(|(a, &o)| *a == p.arrows[o]),
        None => false,
    }
}

#[derive(Debug, Clone, PartialEq, Eq)]
struct Parsed {
    cmr: [u8; 32],
    bytes: Vec<u8>,
    arrows: Vec<String>,
    text: String,
}

/// which jet family the parser is instantiated with (the jets-text leg switches it)
static PARSE_ELEMENTS: std::sync::atomic::AtomicBool = std::sync::atomic::AtomicBool::new(false);

fn parse_once(text: &str) -> Result<Option<Parsed>, String> {
    let parsed = if PARSE_ELEMENTS.load(std::sync::atomic::Ordering::Relaxed) { Forest::parse::<simplicity::jet::Elements>(text) } else { Forest::parse::<Core>(text) };
    match parsed {
        Err(e) => Err(e.to_string().chars().take(200).collect()),
        Ok(f) => {
            let Some(main) = f.roots().get("main") else { return Ok(None) };
            let arrows: Vec<String> = main.as_ref().post_order_iter::<InternalSharing>().map(|d| format!("{}", d.node.arrow())).collect();
            Ok(Some(Parsed { cmr: main.cmr().to_byte_array(), bytes: main.to_vec_without_witness(), arrows, text: f.string_serialize() }))
        }
    }
}

/// parse twice (hash-order audit); Err(..) = machinery-level nondeterminism
fn parse_twice(text: &str) -> Result<Result<Option<Parsed>, String>, (String, String)> {
    let a = parse_once(text);
    let b = parse_once(text);
    let same = match (&a, &b) {
        (Ok(Some(x)), Ok(Some(y))) => x.cmr == y.cmr && x.bytes == y.bytes,
        (Ok(None), Ok(None)) => true,
        (Err(_), Err(_)) => true,
        _ => false,
    };
    if !same {
        return Err(("parse:nondeterministic".into(), "two parses of the same text in one process disagree".into()));
    }
    Ok(a)
}

fn classify_nodes(p: &Prog) -> &'static str {
    if p.has(|s| matches!(s, Sym::Fail(_))) {
        "with-fail"
    } else if p.has(|s| matches!(s, Sym::Disc1)) {
        "with-disconnect-hole"
    } else if p.has(|s| matches!(s, Sym::AssertL(_) | Sym::AssertR(_))) {
        "with-hidden-cmr"
    } else {
        "plain"
    }
}

/// text -> parse -> render -> parse; all three programs must be the expected one
fn roundtrip_text(text: &str, want_cmr: &[u8; 32], want_bytes: &[u8], out: &mut Out) -> Result<(), (String, String)> {
    out.transitions += 2;
    let first = match parse_twice(text)? {
        Ok(Some(p)) => p,
        Ok(None) => return Err(("parse:ok-without-main".into(), format!("parse returns Ok but the forest has no `main`; text:\n{text}"))),
        Err(e) => return Err(("parse:rejects-generated-text".into(), format!("{e}; text:\n{text}"))),
    };
    if first.cmr != *want_cmr {
        return Err(("parse:cmr".into(), format!("parsed main has CMR {}, expected {}; text:\n{text}", hex(&first.cmr), hex(want_cmr))));
    }
    if first.bytes != want_bytes {
        return Err(("parse:encoding".into(), format!("parsed main encodes as {}, the program as {}; text:\n{text}", hex(&first.bytes), hex(want_bytes))));
    }
    out.transitions += 2;
    let second = match parse_twice(&first.text)? {
        Ok(Some(p)) => p,
        Ok(None) => return Err(("render:reparse-ok-without-main".into(), format!("the rendered text parses to a forest without `main`:\n{}", first.text))),
        Err(e) => return Err(("render:does-not-reparse".into(), format!("{e}; rendered text:\n{}", first.text))),
    };
    if second.cmr != first.cmr || second.bytes != first.bytes {
        return Err(("render:reparse-differs".into(), format!("re-parsed program differs (CMR {} vs {}); rendered text:\n{}", hex(&second.cmr), hex(&first.cmr), first.text)));
    }
    let mut a = first.arrows.clone();
    let mut b = second.arrows.clone();
    a.sort();
    a.dedup();
    b.sort();
    b.dedup();
    if a != b {
        return Err(("render:reparse-types".into(), format!("the sets of node arrows differ after the round trip; rendered text:\n{}", first.text)));
    }
    Ok(())
}

fn run(ctx: &Ctx, out: &mut Out) {
    leg_programs(ctx, out);
    leg_tokens(ctx, out);
    leg_jets(ctx, out);
}

/// `comp (comp witness jet) unit` for every Core jet: the rendering annotates the witness with the
/// jet's source type, so every type abbreviation the printer knows (2^8 .. 2^512, products of them,
/// options) goes through the printer and back through the type parser.
fn leg_jets(ctx: &Ctx, out: &mut Out) {
    let leg = "jets-text";
    leg_words(ctx, out);
    for fam in [Fam::Core, Fam::Elements] {
    PARSE_ELEMENTS.store(fam == Fam::Elements, std::sync::atomic::Ordering::Relaxed);
    let mut own = false;
    for j in 0..fam.n_jets() as u16 {
        // units of eight jets
        if j % 8 == 0 {
            own = ctx.mine();
        }
        if !own {
            continue;
        }
        let dag: Dag = vec![
            Node { sym: Sym::Witness, l: 0, r: 0 },
            Node { sym: Sym::Jet(j), l: 0, r: 0 },
            Node { sym: Sym::Comp, l: 0, r: 1 },
            Node { sym: Sym::Unit, l: 0, r: 0 },
            Node { sym: Sym::Comp, l: 2, r: 3 },
        ];
        let label = || format!("{}: comp (comp witness {}) unit", fam.name(), fam.jet(j));
        if !ctx.begin(leg, &label) {
            continue;
        }
        out.evaluations += 1;
        out.states += 1;
        out.nontrivial += 1;
        let r = guard(|| -> Result<(), (String, String)> {
            let p = Prog::new(&dag, fam).ok_or(("jets-text:host".to_string(), "reference cannot type the one-jet program".to_string()))?;
            let commit = p.to_commit().map_err(|e| ("jets-text:host".to_string(), e))?;
            let want_arrows: Vec<String> = commit.as_ref().post_order_iter::<InternalSharing>().map(|d| format!("{}", d.node.arrow())).collect();
            let text = Forest::from_program(Arc::clone(&commit)).string_serialize();
            out.transitions += 2;
            match parse_twice(&text)? {
                Ok(Some(q)) => {
                    if q.cmr != commit.cmr().to_byte_array() || q.bytes != commit.to_vec_without_witness() {
                        return Err(("render:reparse-differs:jet".into(), format!("rendered text parses to another program:\n{text}")));
                    }
                    let (mut a, mut b) = (want_arrows, q.arrows);
                    a.sort();
                    b.sort();
                    if a != b {
                        return Err(("render:reparse-types:jet".into(), format!("node arrows differ after the round trip; rendered text:\n{text}")));
                    }
                    Ok(())
                }
                Ok(None) => Err(("render:reparse-ok-without-main:jet".into(), format!("rendered text parses to a forest without `main`:\n{text}"))),
                Err(e) => Err(("render:does-not-reparse:jet".into(), format!("{e}; rendered text:\n{text}"))),
            }
        });
        match r {
            Ok(Ok(())) => {
                out.outcome("jets-text:ok");
                out.sample(leg, || (label(), "rendered text parses back to the same CMR, encoding and node arrows".into()));
            }
            Ok(Err((c, d))) => out.violation(&c, leg, label(), d),
            Err(e) => out.violation(&panic_class(&e), leg, label(), e),
        }
        ctx.end();
    }
    }
    PARSE_ELEMENTS.store(false, std::sync::atomic::Ordering::Relaxed);
}

fn leg_programs(ctx: &Ctx, out: &mut Out) {
    let fam = Fam::Core;
    let mut m = Merkle::default();
    let nmax = ctx.tier.pick(5, 6);
    for n in 1..=nmax {
        let mut alpha = sigma_p(fam);
        alpha.retain(|s| *s != Sym::Disc2);
        let mut dags: Vec<Dag> = vec![];
        enum_dags(n, &alpha, 3, &mut || ctx.mine(), &mut |d| dags.push(d.to_vec()));
        for dag in &dags {
            let Some(p) = Prog::new(dag, fam) else { continue };
            // programs in which a witness- or disconnect-containing sub-expression is used twice (one object,
            // two paths) are committed programs too: the library names such a sub-expression once per path.
            // They go through the from-program leg only (the text renderings below name each DAG node once).
            let unique = p.commit_unique();
            if !unique {
                // The library gives each path its own copy. The copies are typed independently when the text is
                // parsed, and ascriptions in `main` are only *checked* against inferred types (documented in
                // named_node.rs), so the rendering can only parse if the copies keep their arrows under
                // principal typing of the expanded DAG; programs where the sharing constrained a type are
                // outside what the text form can express and are skipped.
                let mask = p.contains_wd();
                if !inlining_preserves_types(&p, &mask) {
                    out.count("from-program:skipped(a shared witness/hole whose sharing constrains its type)", 1);
                    continue;
                }
            }
            let want_cmr = ref_cmrs(dag, fam, &mut m)[dag.len() - 1];
            let Ok(commit) = p.to_commit() else { continue };
            let want_bytes = commit.to_vec_without_witness();
            let kind = classify_nodes(&p);
            // (a) from_program -> string_serialize -> parse
            {
                let leg = "from-program";
                let label = || p.render();
                if ctx.begin(leg, &label) {
                    out.evaluations += 1;
                    out.states += 1;
                    if kind != "plain" || shared_nodes(dag) > 0 {
                        out.nontrivial += 1;
                    }
                    let r = guard(|| {
                        let text = Forest::from_program(Arc::clone(&commit)).string_serialize();
                        out.transitions += 1;
                        match parse_twice(&text)? {
                            Ok(Some(q)) => {
                                if q.cmr != want_cmr || q.bytes != want_bytes {
                                    return Err((format!("render:reparse-differs:{kind}"), format!("rendered text parses to another program:\n{text}")));
                                }
                                Ok(())
                            }
                            Ok(None) => Err((format!("render:reparse-ok-without-main:{kind}"), format!("rendered text parses to a forest without `main`:\n{text}"))),
                            Err(e) => Err((format!("render:does-not-reparse:{kind}"), format!("{e}; rendered text:\n{text}"))),
                        }
                    });
                    match r {
                        Ok(Ok(())) => {
                            out.outcome("from-program:ok");
                            out.sample(leg, || (label(), "rendered text parses back to the same CMR and bit encoding".into()));
                        }
                        Ok(Err((c, d))) => out.violation(&c, leg, label(), d),
                        Err(e) => out.violation(&panic_class(&e), leg, label(), e),
                    }
                    ctx.end();
                }
            }
            // (b) every text rendering of the DAG (quick: programs with <= 4 nodes)
            if !unique || (ctx.tier == Tier::Quick && dag.len() > 4) {
                continue;
            }
            let leg = "texts";
            let k = dag.len() - 1;
            for mask in 0..(1u32 << k) {
                let mut inline: Vec<bool> = (0..k).map(|i| mask >> i & 1 == 1).collect();
                inline.push(false);
                // inlining a shared node whose sharing constrains its type writes a different program
                if !inlining_preserves_types(&p, &inline) {
                    out.count("texts:skipped(inlining a shared node changes the typing)", 1);
                    continue;
                }
                for ascribe in [false, true] {
                    for hidden in [Hidden::Expr, Hidden::Literal] {
                        if hidden == Hidden::Literal && !p.has(|s| matches!(s, Sym::AssertL(_) | Sym::AssertR(_))) {
                            continue;
                        }
                        let text = render_text(&p, &inline, ascribe, hidden);
                        let label = || format!("{} inline={:?} ascribe={ascribe} hidden={hidden:?}", p.render(), &inline[..k]);
                        if !ctx.begin(leg, &label) {
                            continue;
                        }
                        out.evaluations += 1;
                        out.states += 1;
                        out.nontrivial += 1;
                        // with `#{fail ..}` standing for a hidden branch the CMR differs from the [h;32] one: compute expectation accordingly
                        let (wc, wb) = if hidden == Hidden::Expr && p.has(|s| matches!(s, Sym::AssertL(_) | Sym::AssertR(_))) {
                            // expected values come from the first parse itself; only the round trip is judged
                            (None, None)
                        } else {
                            (Some(want_cmr), Some(want_bytes.clone()))
                        };
                        let r = guard(|| match (wc, wb) {
                            (Some(c), Some(b)) => roundtrip_text(&text, &c, &b, out),
                            _ => match parse_twice(&text)? {
                                Ok(Some(first)) => roundtrip_text(&text, &first.cmr, &first.bytes, out),
                                Ok(None) => Err(("parse:ok-without-main".into(), format!("text:\n{text}"))),
                                Err(e) => Err(("parse:rejects-generated-text".into(), format!("{e}; text:\n{text}"))),
                            },
                        });
                        match r {
                            Ok(Ok(())) => {
                                out.outcome("text:ok");
                                if mask != 0 {
                                    out.sample(leg, || (label(), format!("text:\n{text}")));
                                }
                            }
                            Ok(Err((c, d))) => out.violation(&format!("{c}:{kind}{}", if hidden == Hidden::Literal { ":literal" } else { "" }), leg, label(), d),
                            Err(e) => out.violation(&panic_class(&e), leg, label(), e),
                        }
                        ctx.end();
                    }
                }
            }
        }
    }
}

/// all token strings up to a length, and all 2-byte raw texts: parsing must terminate, Ok or Err
fn leg_tokens(ctx: &Ctx, out: &mut Out) {
    let leg = "tokens";
    let toks: Vec<&str> = vec![
        "main", "a", ":=", ":", "->", "(", ")", "+", "*", "?", "#{", "}", "unit", "iden", "witness", "comp", "case", "pair", "injl", "take", "assertl", "disconnect", "fail", "const", "0b1", "0x00", "1", "2", "2^8", "_", "jet_verify",
        "#0000000000000000000000000000000000000000000000000000000000000000", "\n",
    ];
    let t = ctx.tier.pick(3, 4);
    let a = toks.len() as u64;
    for len in 0..=t {
        let total = a.pow(len as u32);
        let chunk = 2048u64;
        let mut base = 0;
        while base < total {
            if ctx.mine() {
                for x in base..(base + chunk).min(total) {
                    let mut s = String::new();
                    let mut y = x;
                    for _ in 0..len {
                        s.push_str(toks[(y % a) as usize]);
                        s.push(' ');
                        y /= a;
                    }
                    // "main :=" prefix half of the time doubles the reachable grammar depth
                    for text in [s.clone(), format!("main := {s}")] {
                        if !ctx.begin(leg, &|| text.clone()) {
                            continue;
                        }
                        out.evaluations += 1;
                        out.states += 1;
                        out.transitions += 2;
                        match guard(|| parse_twice(&text)) {
                            Ok(Ok(Ok(Some(_)))) => {
                                out.nontrivial += 1;
                                out.outcome("tokens:program");
                                out.sample(leg, || (text.clone(), "parses to a program".into()));
                            }
                            Ok(Ok(Ok(None))) => out.outcome("tokens:ok-no-main"),
                            Ok(Ok(Err(_))) => out.outcome("tokens:error-list"),
                            Ok(Err((c, d))) => out.violation(&c, leg, text.clone(), d),
                            Err(e) => out.violation(&panic_class(&e), leg, text.clone(), e),
                        }
                        ctx.end();
                    }
                }
            }
            base += chunk;
        }
    }
    // raw bytes
    if ctx.mine() {
        for x in 0..=0xffffu32 {
            let bytes = [(x >> 8) as u8, x as u8];
            let Ok(text) = std::str::from_utf8(&bytes) else { continue };
            if !ctx.begin("raw", &|| format!("{:?}", text)) {
                continue;
            }
            out.evaluations += 1;
            out.transitions += 1;
            match guard(|| parse_once(text).is_ok()) {
                Ok(_) => out.outcome("raw:terminates"),
                Err(e) => out.violation(&panic_class(&e), "raw", format!("{:?}", text), e),
            }
            ctx.end();
        }
    }
    let _ = Tier::Quick;
}

/// `comp (const w) unit` for a word of every size 1..512 bits: literals and their 2^N type annotations
fn leg_words(ctx: &Ctx, out: &mut Out) {
    use simplicity::node::{CoreConstructible, ConstructNode};
    use simplicity::{types, Word};
    let leg = "words-text";
    if !ctx.mine() {
        return;
    }
    for n in 0..=9u32 {
        for pattern in [0x00u8, 0xff, 0xa5, 0x01] {
            let label = || format!("comp (const {}-bit word of bytes {pattern:#04x}) unit", 1u32 << n);
            if !ctx.begin(leg, &label) {
                continue;
            }
            out.evaluations += 1;
            out.states += 1;
            out.nontrivial += 1;
            let r = guard(|| -> Result<(), (String, String)> {
                let w = match n {
                    0 => Word::u1(pattern & 1),
                    1 => Word::u2(pattern & 3),
                    2 => Word::u4(pattern & 15),
                    3 => Word::u8(pattern),
                    4 => Word::u16(u16::from_be_bytes([pattern; 2])),
                    5 => Word::u32(u32::from_be_bytes([pattern; 4])),
                    6 => Word::u64(u64::from_be_bytes([pattern; 8])),
                    7 => Word::u128(u128::from_be_bytes([pattern; 16])),
                    8 => Word::u256([pattern; 32]),
                    _ => Word::u512([pattern; 64]),
                };
                let commit = types::Context::with_context(|c| {
                    let k = Arc::<ConstructNode>::const_word(&c, w);
                    let p = Arc::<ConstructNode>::comp(&k, &Arc::<ConstructNode>::unit(&c)).map_err(|e| e.to_string())?;
                    p.finalize_types().map_err(|e| e.to_string())
                })
                .map_err(|e| ("words-text:host".to_string(), e))?;
                let text = Forest::from_program(Arc::clone(&commit)).string_serialize();
                out.transitions += 2;
                match parse_twice(&text)? {
                    Ok(Some(q)) if q.cmr == commit.cmr().to_byte_array() && q.bytes == commit.to_vec_without_witness() => Ok(()),
                    Ok(Some(_)) => Err(("render:reparse-differs:word".into(), format!("rendered text parses to another program:\n{text}"))),
                    Ok(None) => Err(("render:reparse-ok-without-main:word".into(), format!("rendered text parses to a forest without `main`:\n{text}"))),
                    Err(e) => Err(("render:does-not-reparse:word".into(), format!("{e}; rendered text:\n{text}"))),
                }
            });
            match r {
                Ok(Ok(())) => {
                    out.outcome("words-text:ok");
                    out.sample(leg, || (label(), "rendered text parses back to the same CMR and encoding".into()));
                }
                Ok(Err((c, d))) => out.violation(&c, leg, label(), d),
                Err(e) => out.violation(&panic_class(&e), leg, label(), e),
            }
            ctx.end();
        }
    }
}
