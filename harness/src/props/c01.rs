//! C01 - program and witness bit-encoding round-trips.
//! Every program in P(n <= N): commitment form and redemption form with every witness
//! assignment; encode -> decode -> compare roots, per-node arrows/roots, witness bits, re-encode;
//! independent leg: the reference codec decodes the bytes to the maximal-sharing quotient
//! computed structurally from reference types.

use crate::engine::{guard, panic_class, Ctx, Out, PropDef, Tier};
use crate::reference::bits::*;
use crate::reference::codec::*;
use crate::reference::tyval::*;
use crate::space::dag::*;
use crate::space::programs::*;
use simplicity::dag::{DagLike, InternalSharing};
use simplicity::jet::{Core, Elements};
use simplicity::node::{CommitNode, Inner, RedeemNode};
use simplicity::BitIter;
use std::rc::Rc;
use std::sync::Arc;

pub static DEF: PropDef = PropDef {
    id: "C01",
    run,
    rule: "states = distinct (program, form, witness assignment) cases; transitions = encode/decode/re-encode calls judged; non-trivial = program has a shared node, a witness, a hidden branch or a disconnect",
    assumptions: &[
        "expected wire form = structural maximal-sharing quotient (identity class + own arrow), computed from reference types without any hash",
        "commit-time cases are restricted to programs whose witness/disconnect-containing sub-expressions occur once (quantifier)",
        "jet code words are atoms taken from the jet tables (C14 validates them against C)",
    ],
    shards: (32, 128),
    budget_ms: (60_000, 180_000),
};

pub fn sigma_p(fam: Fam) -> Vec<Sym> {
    let mut v = sigma_core(fam);
    v.push(Sym::Fail(1));
    v.push(Sym::AssertL(8));
    v
}

fn run(ctx: &Ctx, out: &mut Out) {
    let leg = "roundtrip";
    for fam in [Fam::Core, Fam::Elements] {
        let jets = JetCodes::new(fam);
        let nmax = ctx.tier.pick(5, 6);
        for n in 1..=nmax {
            let alpha = sigma_p(fam);
            let mut dags: Vec<Dag> = vec![];
            enum_dags(n, &alpha, 3, &mut || ctx.mine(), &mut |d| dags.push(d.to_vec()));
            for dag in &dags {
                let Some(p) = Prog::new(dag, fam) else { continue };
                check_prog(ctx, out, leg, &p, &jets);
            }
        }
    }
    leg_confusable(ctx, out);
    leg_wide(ctx, out);
    leg_typed_witness(ctx, out);
    leg_widths(ctx, out);
}

pub fn nontrivial(p: &Prog) -> bool {
    shared_nodes(&p.dag) > 0 || p.has(|s| matches!(s, Sym::Witness | Sym::AssertL(_) | Sym::AssertR(_) | Sym::Disc1 | Sym::Disc2))
}

fn check_prog(ctx: &Ctx, out: &mut Out, leg: &str, p: &Prog, jets: &JetCodes) {
    // commitment form
    if p.commit_unique() {
        let label = || format!("{} commit", p.render());
        if ctx.begin(leg, &label) {
            out.evaluations += 1;
            out.states += 1;
            if nontrivial(p) {
                out.nontrivial += 1;
            }
            match guard(|| commit_roundtrip(p, jets, out)) {
                Ok(Ok(())) => {
                    out.outcome("commit:ok");
                    if nontrivial(p) {
                        out.sample(leg, || (label(), "commit-time round trip: roots, arrows, bytes and reference wire list agree".into()));
                    }
                }
                Ok(Err((c, d))) => out.violation(&c, leg, label(), d),
                Err(e) => out.violation(&panic_class(&e), leg, label(), e),
            }
            ctx.end();
        }
    } else {
        out.outcome("commit:skipped-shared-witness-or-disconnect");
    }
    // redemption form
    if p.has(|s| s == Sym::Disc1) {
        return;
    }
    let (assignments, complete) = p.witness_assignments(4, ctx.tier.pick(64, 512));
    if !complete {
        out.count("programs-with-capped-witness-assignments", 1);
    }
    for wit in &assignments {
        let label = || format!("{} redeem {}", p.render(), wit_str(wit));
        if !ctx.begin(leg, &label) {
            continue;
        }
        out.evaluations += 1;
        out.states += 1;
        if nontrivial(p) {
            out.nontrivial += 1;
        }
        match guard(|| redeem_roundtrip(p, wit, jets, out)) {
            Ok(Ok(())) => {
                out.outcome("redeem:ok");
                if !p.witness_nodes().is_empty() && shared_nodes(&p.dag) > 0 {
                    out.sample(leg, || (label(), "redeem-time round trip: roots, arrows, witness bits, bytes and reference wire list agree".into()));
                }
            }
            Ok(Err((c, d))) => out.violation(&c, leg, label(), d),
            Err(e) => out.violation(&panic_class(&e), leg, label(), e),
        }
        ctx.end();
    }
}

type R = Result<(), (String, String)>;
fn bad(c: &str, d: String) -> R {
    Err((c.to_string(), d))
}

fn decode_commit(fam: Fam, bytes: &[u8]) -> Result<Arc<CommitNode>, simplicity::DecodeError> {
    match fam {
        Fam::Core => CommitNode::decode::<_, Core>(BitIter::from(bytes)),
        Fam::Elements => CommitNode::decode::<_, Elements>(BitIter::from(bytes)),
    }
}
pub fn decode_redeem(fam: Fam, prog: &[u8], wit: &[u8]) -> Result<Arc<RedeemNode>, simplicity::DecodeError> {
    match fam {
        Fam::Core => RedeemNode::decode::<_, _, Core>(BitIter::from(prog), BitIter::from(wit)),
        Fam::Elements => RedeemNode::decode::<_, _, Elements>(BitIter::from(prog), BitIter::from(wit)),
    }
}

fn kind_matches<A, B, C>(inner: &Inner<A, B, C>, w: &WNode, fam: Fam) -> bool {
    match (inner, w) {
        (Inner::Iden, WNode::Iden) | (Inner::Unit, WNode::Unit) | (Inner::Witness(_), WNode::Witness) => true,
        (Inner::InjL(_), WNode::InjL(_)) | (Inner::InjR(_), WNode::InjR(_)) | (Inner::Take(_), WNode::Take(_)) | (Inner::Drop(_), WNode::Drop(_)) => true,
        (Inner::Comp(..), WNode::Comp(..)) | (Inner::Pair(..), WNode::Pair(..)) => true,
        (Inner::Case(..), WNode::Case(..)) | (Inner::AssertL(..), WNode::Case(..)) | (Inner::AssertR(..), WNode::Case(..)) => true,
        (Inner::Disconnect(..), WNode::Disc(..)) | (Inner::Disconnect(..), WNode::Disc1(..)) => true,
        (Inner::Fail(e), WNode::Fail(f)) => e.to_byte_array() == *f,
        (Inner::Jet(j), WNode::Jet(k)) => j.to_string() == fam.jet(*k).to_string(),
        (Inner::Word(w), WNode::Word(n, bits)) => w.n() == *n as usize && w.iter().collect::<Vec<_>>() == *bits,
        _ => false,
    }
}

fn commit_roundtrip(p: &Prog, jets: &JetCodes, out: &mut Out) -> R {
    // A disconnect with an attached branch: the commitment-time encoding has no place for the
    // branch. If the branch influences the inferred types, the round trip cannot preserve them.
    // Expected result then = the typing of the same DAG with the branch detached.
    if p.has(|s| s == Sym::Disc2) {
        // the commit DAG: branches detached, nodes only reachable through a branch removed
        let present = commit_order(&p.dag);
        let mut remap = vec![usize::MAX; p.dag.len()];
        let mut sorted = present.clone();
        sorted.sort_unstable();
        for (k, i) in sorted.iter().enumerate() {
            remap[*i] = k;
        }
        let detached: Dag = sorted
            .iter()
            .map(|&i| {
                let n = p.dag[i];
                match n.sym {
                    Sym::Disc2 => Node { sym: Sym::Disc1, l: remap[n.l as usize] as u8, r: 0 },
                    s => match s.arity() {
                        0 => n,
                        1 => Node { sym: s, l: remap[n.l as usize] as u8, r: 0 },
                        _ => Node { sym: s, l: remap[n.l as usize] as u8, r: remap[n.r as usize] as u8 },
                    },
                }
            })
            .collect();
        if let Some(p1) = Prog::new(&detached, p.fam) {
            if sorted.iter().any(|i| p1.arrows[remap[*i]] != p.arrows[*i]) {
                // expected = detached typing, transported back onto the original indices
                let mut arrows = p.arrows.clone();
                for i in &sorted {
                    arrows[*i] = p1.arrows[remap[*i]].clone();
                }
                let pd = Prog { dag: p.dag.clone(), fam: p.fam, arrows };
                return match commit_roundtrip_inner(&pd, p, jets, out, false) {
                    Ok(()) => bad("commit:attached-branch-not-serialized", "types inferred with the attached disconnect branch are not those of the decoded program (the commitment-time encoding drops the branch); the decoded program equals the typing with the branch detached".into()),
                    Err((c, d)) if c == "commit:decode-fails" && d.contains("maximal sharing") => {
                        // the same defect seen from the sharing side: with the branch, two nodes have
                        // different types (distinct identity hashes, both emitted); without it they are
                        // equal, so the decoder sees an unshared duplicate. Verify exactly that.
                        let none: Vec<Option<Rc<RV>>> = vec![None; p.dag.len()];
                        let emitted = p.to_commit().map(|c| ref_decode(&bytes_to_bits(&c.to_vec_without_witness()), jets).map(|(n, _)| n.len()).unwrap_or(0)).unwrap_or(0);
                        let canonical = wire_list(&p1, &vec![None; p1.dag.len()], false).nodes.len();
                        let _ = none;
                        if canonical < emitted {
                            bad("commit:attached-branch-changes-sharing", format!("with the attached branch two nodes have different types and are both emitted ({emitted} nodes); the decoder, not seeing the branch, types them equally ({canonical} nodes) and rejects the encoding: {d}"))
                        } else {
                            Err((c, d))
                        }
                    }
                    Err(e) => Err(e),
                };
            }
        }
    }
    commit_roundtrip_inner(p, p, jets, out, true)
}

/// `p` carries the expected arrows, `orig` is built; `same`: original roots must be preserved
fn commit_roundtrip_inner(p: &Prog, orig: &Prog, jets: &JetCodes, out: &mut Out, same: bool) -> R {
    let c = orig.to_commit().map_err(|e| ("build".to_string(), e))?;
    let bytes = c.to_vec_without_witness();
    out.transitions += 3;
    let d = match decode_commit(p.fam, &bytes) {
        Ok(d) => d,
        Err(e) => return bad("commit:decode-fails", format!("own encoding {} does not decode: {e}", hex(&bytes))),
    };
    if d.cmr() != c.cmr() {
        return bad("commit:cmr", "CMR changed".into());
    }
    if same && (d.ihr() != c.ihr() || d.amr() != c.amr()) {
        return bad("commit:roots", "root IHR/AMR changed".into());
    }
    let again = d.to_vec_without_witness();
    if again != bytes {
        return bad("commit:reencode", format!("{} re-encodes as {}", hex(&bytes), hex(&again)));
    }
    {
        #[allow(deprecated)]
        let v = c.encode_to_vec();
        let mut a = Vec::<u8>::new();
        let n = {
            let mut wa = simplicity::BitWriter::new(&mut a as &mut dyn std::io::Write);
            #[allow(deprecated)]
            c.encode(&mut wa).map_err(|e| ("commit:encode-variants".to_string(), e.to_string()))?
        };
        let used = ref_decode(&bytes_to_bits(&bytes), jets).map(|(_, u)| u).unwrap_or(usize::MAX);
        if v != bytes || a != bytes || n != used {
            return bad("commit:encode-variants", format!("encode_to_vec / encode disagree with to_vec_without_witness (bit count {n}, reference {used})"));
        }
    }
    // independent leg
    let none: Vec<Option<Rc<RV>>> = vec![None; p.dag.len()];
    let wire = wire_list(p, &none, false);
    let bits = bytes_to_bits(&bytes);
    match ref_decode(&bits, jets) {
        Ok((nodes, used)) => {
            if nodes != wire.nodes {
                return bad("commit:wire", format!("bytes {} decode (reference codec) to {:?}, expected quotient {:?}", hex(&bytes), nodes, wire.nodes));
            }
            if bits[used..].iter().any(|b| *b) || bits.len() - used >= 8 {
                return bad("commit:padding", "encoding has trailing bits".into());
            }
        }
        Err(e) => return bad("commit:wire", format!("reference codec cannot parse {}: {e:?}", hex(&bytes))),
    }
    // per node: kinds, arrows and roots of the decoded program against the wire list / reference types / original
    let dn: Vec<_> = d.as_ref().post_order_iter::<InternalSharing>().collect();
    let real: Vec<usize> = (0..wire.nodes.len()).filter(|k| wire.origin[*k].is_some()).collect();
    if dn.len() != real.len() {
        return bad("commit:shape", format!("decoded program has {} nodes, quotient {}", dn.len(), real.len()));
    }
    // original nodes by DAG index
    let cn: Vec<_> = c.as_ref().post_order_iter::<InternalSharing>().collect();
    let corder = commit_order(&p.dag);
    for (k, item) in dn.iter().enumerate() {
        let wpos = real[k];
        let i = wire.origin[wpos].unwrap();
        if !kind_matches(item.node.inner(), &wire.nodes[wpos], p.fam) {
            return bad("commit:kind", format!("decoded node {k} is {}, expected {:?}", item.node.inner(), wire.nodes[wpos]));
        }
        let a = item.node.arrow();
        if RT::from_final(&a.source) != p.arrows[i].0 || RT::from_final(&a.target) != p.arrows[i].1 {
            return bad("commit:arrow", format!("decoded node {k} (DAG node {i}) has arrow {a}, expected {} -> {}", p.arrows[i].0, p.arrows[i].1));
        }
        if let Some(ci) = corder.iter().position(|x| *x == i) {
            let o = cn[ci].node;
            if o.cmr() != item.node.cmr() || (same && (o.ihr() != item.node.ihr() || o.amr() != item.node.amr())) {
                return bad("commit:node-roots", format!("roots of DAG node {i} changed in the round trip"));
            }
        }
    }
    Ok(())
}

/// DAG indices in the commit DAG's pointer post-order (disconnect keeps only its left child)
pub fn commit_order(dag: &[Node]) -> Vec<usize> {
    fn go(dag: &[Node], i: usize, seen: &mut Vec<bool>, out: &mut Vec<usize>) {
        if seen[i] {
            return;
        }
        let n = dag[i];
        match n.sym.arity() {
            0 => {}
            1 => go(dag, n.l as usize, seen, out),
            _ => {
                go(dag, n.l as usize, seen, out);
                if n.sym != Sym::Disc2 {
                    go(dag, n.r as usize, seen, out);
                }
            }
        }
        if !seen[i] {
            seen[i] = true;
            out.push(i);
        }
    }
    let mut out = vec![];
    go(dag, dag.len() - 1, &mut vec![false; dag.len()], &mut out);
    out
}

fn redeem_roundtrip(p: &Prog, wit: &[Option<Rc<RV>>], jets: &JetCodes, out: &mut Out) -> R {
    let r = p.to_redeem(wit).map_err(|e| ("build".to_string(), e))?;
    let (pb, wb) = r.to_vec_with_witness();
    out.transitions += 3;
    let d = match decode_redeem(p.fam, &pb, &wb) {
        Ok(d) => d,
        Err(e) => return bad("redeem:decode-fails", format!("own encoding {} / {} does not decode: {e}", hex(&pb), hex(&wb))),
    };
    if d.cmr() != r.cmr() || d.ihr() != r.ihr() || d.amr() != r.amr() {
        return bad("redeem:roots", "root CMR/IHR/AMR changed".into());
    }
    let (pb2, wb2) = d.to_vec_with_witness();
    if pb2 != pb || wb2 != wb {
        return bad("redeem:reencode", format!("{} / {} re-encodes as {} / {}", hex(&pb), hex(&wb), hex(&pb2), hex(&wb2)));
    }
    if r.to_vec_without_witness() != pb {
        return bad("redeem:encode-variants", "to_vec_without_witness differs from the program part of to_vec_with_witness".into());
    }
    // the other entry points of the encoder (deprecated, still public) and the bit counts they return
    {
        #[allow(deprecated)]
        let both = r.encode_to_vec();
        if both != (pb.clone(), wb.clone()) {
            return bad("redeem:encode-variants", "encode_to_vec differs from to_vec_with_witness".into());
        }
        let (mut a, mut b) = (Vec::<u8>::new(), Vec::<u8>::new());
        let n = {
            let mut wa = simplicity::BitWriter::new(&mut a as &mut dyn std::io::Write);
            let mut wbw = simplicity::BitWriter::new(&mut b as &mut dyn std::io::Write);
            #[allow(deprecated)]
            r.encode(&mut wa, &mut wbw).map_err(|e| ("redeem:encode-variants".to_string(), e.to_string()))?
        };
        if a != pb || b != wb {
            return bad("redeem:encode-variants", "encode(prog, witness) writes different bytes than to_vec_with_witness".into());
        }
        // bits written = bits the reference codec consumes for the program + compact bits of the emitted witnesses
        let used = ref_decode(&bytes_to_bits(&pb), jets).map(|(_, u)| u).unwrap_or(usize::MAX);
        let wire = wire_list(p, wit, true);
        let wlen: usize = wire.nodes.iter().enumerate().filter(|(_, x)| **x == WNode::Witness).map(|(k, _)| { let i = wire.origin[k].unwrap(); wit[i].clone().unwrap_or_else(|| RV::zero(&p.arrows[i].1)).compact().len() }).sum();
        if n != used + wlen {
            return bad("redeem:encode-bit-count", format!("encode returns {n} bits, the program has {used} and the witnesses {wlen}"));
        }
    }
    // independent leg
    let wire = wire_list(p, wit, true);
    let bits = bytes_to_bits(&pb);
    match ref_decode(&bits, jets) {
        Ok((nodes, used)) => {
            if nodes != wire.nodes {
                return bad("redeem:wire", format!("bytes {} decode (reference codec) to {:?}, expected quotient {:?}", hex(&pb), nodes, wire.nodes));
            }
            if bits[used..].iter().any(|b| *b) || bits.len() - used >= 8 {
                return bad("redeem:padding", "program encoding has trailing bits".into());
            }
        }
        Err(e) => return bad("redeem:wire", format!("reference codec cannot parse {}: {e:?}", hex(&pb))),
    }
    // witness stream: compact bits of each witness in wire order
    let mut wbits = vec![];
    for (k, n) in wire.nodes.iter().enumerate() {
        if *n == WNode::Witness {
            let i = wire.origin[k].unwrap();
            let v = wit[i].clone().unwrap_or_else(|| RV::zero(&p.arrows[i].1));
            wbits.extend(v.compact());
        }
    }
    let got = bytes_to_bits(&wb);
    if got.len() < wbits.len() || got[..wbits.len()] != wbits[..] || got[wbits.len()..].iter().any(|b| *b) || got.len() - wbits.len() >= 8 {
        return bad("redeem:witness-stream", format!("witness bytes {} but expected bits {}", hex(&wb), bits_str(&wbits)));
    }
    // per node
    let dn: Vec<_> = d.as_ref().post_order_iter::<InternalSharing>().collect();
    let real: Vec<usize> = (0..wire.nodes.len()).filter(|k| wire.origin[*k].is_some()).collect();
    if dn.len() != real.len() {
        return bad("redeem:shape", format!("decoded program has {} nodes, quotient {}", dn.len(), real.len()));
    }
    let rn: Vec<_> = r.as_ref().post_order_iter::<InternalSharing>().collect();
    if rn.len() != p.dag.len() {
        return bad("redeem:shape", "finalize_unpruned changed the pointer structure".into());
    }
    for (k, item) in dn.iter().enumerate() {
        let wpos = real[k];
        let i = wire.origin[wpos].unwrap();
        if !kind_matches(item.node.inner(), &wire.nodes[wpos], p.fam) {
            return bad("redeem:kind", format!("decoded node {k} is {}, expected {:?}", item.node.inner(), wire.nodes[wpos]));
        }
        let a = item.node.arrow();
        if RT::from_final(&a.source) != p.arrows[i].0 || RT::from_final(&a.target) != p.arrows[i].1 {
            return bad("redeem:arrow", format!("decoded node {k} (DAG node {i}) has arrow {a}, expected {} -> {}", p.arrows[i].0, p.arrows[i].1));
        }
        let o = rn[i].node;
        if o.cmr() != item.node.cmr() || o.ihr() != item.node.ihr() || o.amr() != item.node.amr() {
            return bad("redeem:node-roots", format!("roots of DAG node {i} changed in the round trip"));
        }
        if let (Inner::Witness(v), Inner::Witness(ov)) = (item.node.inner(), o.inner()) {
            let want = wit[i].clone().unwrap_or_else(|| RV::zero(&p.arrows[i].1)).compact();
            let got: Vec<bool> = v.iter_compact().collect();
            let orig: Vec<bool> = ov.iter_compact().collect();
            if got != want || orig != want || !v.is_of_type(&a.target) {
                return bad("redeem:witness-value", format!("witness at DAG node {i}: decoded {}, original {}, expected {}", bits_str(&got), bits_str(&orig), bits_str(&want)));
            }
        }
    }
    Ok(())
}

/// Expressions for the `confusable` leg: a tiny tree language flattened into a canonical, maximally shared DAG.
#[derive(Clone, PartialEq, Eq, Hash, Debug)]
pub enum Ex {
    Leaf(Sym),
    Un(Sym, Box<Ex>),
    Bin(Sym, Box<Ex>, Box<Ex>),
}

pub fn ex_to_dag(e: &Ex) -> Dag {
    fn go(e: &Ex, dag: &mut Dag, memo: &mut std::collections::HashMap<Ex, u8>) -> u8 {
        if let Some(i) = memo.get(e) {
            return *i;
        }
        let node = match e {
            Ex::Leaf(s) => Node { sym: *s, l: 0, r: 0 },
            Ex::Un(s, a) => {
                let l = go(a, dag, memo);
                Node { sym: *s, l, r: 0 }
            }
            Ex::Bin(s, a, b) => {
                let l = go(a, dag, memo);
                let r = go(b, dag, memo);
                Node { sym: *s, l, r }
            }
        };
        dag.push(node);
        let i = (dag.len() - 1) as u8;
        memo.insert(e.clone(), i);
        i
    }
    let mut dag = vec![];
    go(e, &mut dag, &mut std::collections::HashMap::new());
    dag
}

/// every expression made of one constructor of the alphabet over the children {unit, iden}
pub fn one_constructor_exprs(fam: Fam) -> Vec<Ex> {
    let kids = [Ex::Leaf(Sym::Unit), Ex::Leaf(Sym::Iden)];
    let mut v = vec![];
    for sym in sigma_p(fam) {
        match sym.arity() {
            0 => {
                if sym != Sym::Witness {
                    v.push(Ex::Leaf(sym))
                }
            }
            1 => {
                for k in &kids {
                    v.push(Ex::Un(sym, Box::new(k.clone())));
                }
            }
            _ => {
                for a in &kids {
                    for b in &kids {
                        v.push(Ex::Bin(sym, Box::new(a.clone()), Box::new(b.clone())));
                    }
                }
            }
        }
    }
    v
}

/// Confusable siblings: two *different* one-constructor expressions F, G side by side in one program,
/// `comp witness (comp (pair F G) unit)`, for every ordered pair over the whole alphabet. Whatever the encoder uses
/// to decide that two nodes are the same (first-pass identity hashes, arrows, hidden roots) has to tell every such
/// pair apart: assertl x h / assertr h x, injl / injr, take / drop, swapped children, different entropy, ...
fn leg_confusable(ctx: &Ctx, out: &mut Out) {
    let leg = "confusable";
    for fam in [Fam::Core, Fam::Elements] {
        let jets = JetCodes::new(fam);
        let exprs = one_constructor_exprs(fam);
        for f in &exprs {
            if !ctx.mine() {
                continue;
            }
            for g in &exprs {
                if f == g {
                    continue;
                }
                let host = Ex::Bin(
                    Sym::Comp,
                    Box::new(Ex::Leaf(Sym::Witness)),
                    Box::new(Ex::Bin(Sym::Comp, Box::new(Ex::Bin(Sym::Pair, Box::new(f.clone()), Box::new(g.clone()))), Box::new(Ex::Leaf(Sym::Unit)))),
                );
                let dag = ex_to_dag(&host);
                if !is_canonical(&dag) {
                    out.violation("confusable:not-canonical", leg, render(&dag, fam), "machinery: flattened DAG is not canonical".into());
                    continue;
                }
                let Some(p) = Prog::new(&dag, fam) else {
                    out.outcome("confusable:ill-typed-pair");
                    continue;
                };
                out.count("confusable-pairs", 1);
                check_prog(ctx, out, leg, &p, &jets);
            }
        }
    }
}

/// every jet, wide witness types on corner values: programs `comp (comp witness jet) unit`
fn leg_wide(ctx: &Ctx, out: &mut Out) {
    let leg = "wide";
    for fam in [Fam::Core, Fam::Elements] {
        let jets = JetCodes::new(fam);
        // every jet of the family (each has its own row in the encoder's code table and its own
        // path in the decoder's tree)
        for j in 0..fam.n_jets() as u16 {
            if !ctx.mine() {
                continue;
            }
            // 0=witness 1=jet 2=comp(0,1) 3=unit 4=comp(2,3)
            let dag: Dag = vec![
                Node { sym: Sym::Witness, l: 0, r: 0 },
                Node { sym: Sym::Jet(j), l: 0, r: 0 },
                Node { sym: Sym::Comp, l: 0, r: 1 },
                Node { sym: Sym::Unit, l: 0, r: 0 },
                Node { sym: Sym::Comp, l: 2, r: 3 },
            ];
            let Some(p) = Prog::new(&dag, fam) else {
                out.violation("wide:untypable", leg, render(&dag, fam), "reference cannot type the one-jet program".into());
                continue;
            };
            let (mut assignments, _) = p.witness_assignments(4, 64);
            if ctx.tier == Tier::Quick {
                assignments.truncate(3);
            }
            out.cap("wide witness types: corner values only");
            for wit in &assignments {
                let label = || format!("{} redeem {}", p.render(), wit_str(wit));
                if !ctx.begin(leg, &label) {
                    continue;
                }
                out.evaluations += 1;
                out.states += 1;
                out.nontrivial += 1;
                match guard(|| redeem_roundtrip(&p, wit, &jets, out)) {
                    Ok(Ok(())) => {
                        out.outcome("wide:ok");
                        out.sample(leg, || (label(), "round trip ok".into()));
                    }
                    Ok(Err((c, d))) => out.violation(&c, leg, label(), d),
                    Err(e) => out.violation(&panic_class(&e), leg, label(), e),
                }
                ctx.end();
            }
        }
    }
    let _ = Tier::Quick;
}

/// `comp witness inspect_T` (paired with a follower witness), as an unshared tree: inspect_T : T -> 1 destructs the whole of T, so the
/// witness node's principal target type is exactly T (sum: comp (pair iden unit) (case (take l) (take r));
/// product: comp (pair (take l) (drop r)) unit).
pub fn typed_witness_host(t: &RT) -> Dag {
    fn push(d: &mut Dag, sym: Sym, l: usize, r: usize) -> usize {
        d.push(Node { sym, l: l as _, r: r as _ });
        d.len() - 1
    }
    fn inspect(d: &mut Dag, t: &RT) -> usize {
        match t {
            RT::Unit => push(d, Sym::Unit, 0, 0),
            RT::Sum(a, b) => {
                let i = push(d, Sym::Iden, 0, 0);
                let u = push(d, Sym::Unit, 0, 0);
                let p = push(d, Sym::Pair, i, u);
                let l = inspect(d, a);
                let l = push(d, Sym::Take, l, 0);
                let r = inspect(d, b);
                let r = push(d, Sym::Take, r, 0);
                let c = push(d, Sym::Case, l, r);
                push(d, Sym::Comp, p, c)
            }
            RT::Prod(a, b) => {
                let l = inspect(d, a);
                let l = push(d, Sym::Take, l, 0);
                let r = inspect(d, b);
                let r = push(d, Sym::Drop, r, 0);
                let p = push(d, Sym::Pair, l, r);
                let u = push(d, Sym::Unit, 0, 0);
                push(d, Sym::Comp, p, u)
            }
        }
    }
    // pair (comp witness inspect_T) (comp witness inspect_F), F = 2^2 * 1: the second witness follows
    // the first in the witness stream, so a miscounted first witness cannot hide in the end padding
    let mut d = vec![];
    let w = push(&mut d, Sym::Witness, 0, 0);
    let i = inspect(&mut d, t);
    let first = push(&mut d, Sym::Comp, w, i);
    let w2 = push(&mut d, Sym::Witness, 0, 0);
    let i2 = inspect(&mut d, &RT::prod(&RT::word(1), &RT::unit()));
    let second = push(&mut d, Sym::Comp, w2, i2);
    let p = push(&mut d, Sym::Pair, first, second);
    let u = push(&mut d, Sym::Unit, 0, 0);
    push(&mut d, Sym::Comp, p, u);
    d
}

/// every value of every small witness type (and of the types whose padding flag hangs on one child)
fn leg_typed_witness(ctx: &Ctx, out: &mut Out) {
    let leg = "typed-witness";
    let fam = Fam::Core;
    let jets = JetCodes::new(fam);
    let mut tys = types_upto(ctx.tier.pick(3, 4));
    tys.extend(padding_flag_family(ctx.tier.pick(6, 7)));
    for t in tys {
        if !ctx.mine() {
            continue;
        }
        let dag = typed_witness_host(&t);
        let p = match Prog::new(&dag, fam) {
            Some(p) if p.arrows[0].1 == t => p,
            _ => {
                out.violation("typed:host", leg, format!("witness : 1 -> {t}"), "the reference does not give the host's witness node the intended type".into());
                continue;
            }
        };
        let w2 = (0..dag.len()).filter(|i| dag[*i].sym == Sym::Witness).nth(1).unwrap();
        let follower = RV::pair(&RV::word(1, 3), &RV::unit());
        for v in values_of(&t, 4096).0 {
            let mut wit = vec![None; dag.len()];
            wit[0] = Some(v.clone());
            wit[w2] = Some(follower.clone());
            let label = || format!("witness : 1 -> {t} = {v} (followed by a witness 0b11 : 2^2 * 1)");
            if !ctx.begin(leg, &label) {
                continue;
            }
            out.evaluations += 1;
            out.states += 1;
            out.nontrivial += 1;
            match guard(|| redeem_roundtrip(&p, &wit, &jets, out)) {
                Ok(Ok(())) => {
                    out.outcome("typed:ok");
                    out.sample(leg, || (label(), "round trip ok".into()));
                }
                Ok(Err((c, d))) => out.violation(&c, leg, label(), d),
                Err(e) => out.violation(&panic_class(&e), leg, label(), e),
            }
            ctx.end();
        }
    }
}

/// A witness node whose principal type is a product of words L bits wide in total (as many 64-bit
/// words as fit, then the binary expansion of the rest), pinned by a constant of the same type:
/// comp (comp (pair (injl unit) (pair witness K)) (case (drop (take iden)) (drop (drop iden)))) unit.
/// Returns the DAG, the witness node's index and its type.
pub fn width_host(bits: usize) -> (Dag, usize, Rc<RT>) {
    let mut d: Dag = vec![];
    let (c1, w, ty) = width_inner(&mut d, bits);
    let u2 = wpush(&mut d, Sym::Unit, 0, 0);
    wpush(&mut d, Sym::Comp, c1, u2);
    (d, w, ty)
}

/// two such witness nodes of the same type side by side: comp (pair inner inner') unit
pub fn width_host_pair(bits: usize) -> (Dag, [usize; 2], Rc<RT>) {
    let mut d: Dag = vec![];
    let (a, w1, ty) = width_inner(&mut d, bits);
    let (b, w2, _) = width_inner(&mut d, bits);
    let p = wpush(&mut d, Sym::Pair, a, b);
    let u = wpush(&mut d, Sym::Unit, 0, 0);
    wpush(&mut d, Sym::Comp, p, u);
    (d, [w1, w2], ty)
}

fn wpush(d: &mut Dag, sym: Sym, l: usize, r: usize) -> usize {
    d.push(Node { sym, l: l as _, r: r as _ });
    d.len() - 1
}

/// comp (pair (injl unit) (pair witness K)) (case (drop (take iden)) (drop (drop iden))) : 1 -> A
fn width_inner(d: &mut Dag, bits: usize) -> (usize, usize, Rc<RT>) {
    assert!(bits >= 1);
    let push = wpush;
    let mut words: Vec<u8> = vec![6; bits / 64];
    for k in (0..6).rev() {
        if bits % 64 & (1 << k) != 0 {
            words.push(k as u8);
        }
    }
    let u = push(d, Sym::Unit, 0, 0);
    let sel = push(d, Sym::InjL, u, 0);
    let w = push(d, Sym::Witness, 0, 0);
    // K = pair w_0 (pair w_1 (...)), emitted in post-order (left child, right child, node)
    fn konst(d: &mut Dag, words: &[u8]) -> (usize, Rc<RT>) {
        let x = wpush(d, Sym::Word(words[0], if words.len() % 2 == 0 { 0xfedc_ba98_7654_3210 } else { 0x0123_4567_89ab_cdef }), 0, 0);
        let tx = RT::word(words[0] as usize);
        if words.len() == 1 {
            return (x, tx);
        }
        let (rest, tr) = konst(d, &words[1..]);
        (wpush(d, Sym::Pair, x, rest), RT::prod(&tx, &tr))
    }
    let (k, ty) = konst(d, &words);
    let wk = push(d, Sym::Pair, w, k);
    let input = push(d, Sym::Pair, sel, wk);
    let i1 = push(d, Sym::Iden, 0, 0);
    let t1 = push(d, Sym::Take, i1, 0);
    let left = push(d, Sym::Drop, t1, 0);
    let i2 = push(d, Sym::Iden, 0, 0);
    let d2 = push(d, Sym::Drop, i2, 0);
    let right = push(d, Sym::Drop, d2, 0);
    let cs = push(d, Sym::Case, left, right);
    let c1 = push(d, Sym::Comp, input, cs);
    (c1, w, ty)
}

/// witness values of every bit width: the width at which a hand-rolled padding, length prefix or
/// word boundary goes wrong is not one any small type has
pub fn width_values(t: &Rc<RT>) -> Vec<Rc<RV>> {
    let mut v = corner_values(t);
    v.truncate(4);
    v
}

fn leg_widths(ctx: &Ctx, out: &mut Out) {
    let leg = "witness-widths";
    let fam = Fam::Core;
    let jets = JetCodes::new(fam);
    let max = ctx.tier.pick(600, 1100);
    for bits in 1..=max {
        if !ctx.mine() {
            continue;
        }
        let (dag, w, t) = width_host(bits);
        let p = match Prog::new(&dag, fam) {
            Some(p) if p.arrows[w].1 == t => p,
            _ => {
                out.violation("widths:host", leg, format!("{bits} bits"), "the reference does not give the host's witness node the intended type".into());
                continue;
            }
        };
        for v in width_values(&t) {
            let mut wit = vec![None; dag.len()];
            wit[w] = Some(v.clone());
            let label = || format!("witness of {bits} bits = {}", bits_str(&v.compact()));
            if !ctx.begin(leg, &label) {
                continue;
            }
            out.evaluations += 1;
            out.states += 1;
            out.nontrivial += 1;
            match guard(|| redeem_roundtrip(&p, &wit, &jets, out)) {
                Ok(Ok(())) => {
                    out.outcome("widths:ok");
                    out.sample(leg, || (label(), "round trip ok".into()));
                }
                Ok(Err((c, d))) => out.violation(&c, leg, label(), d),
                Err(e) => out.violation(&panic_class(&e), leg, label(), e),
            }
            ctx.end();
        }
        // two witnesses of this width whose values differ in one bit only (first bit / last bit): two
        // nodes the encoder must keep apart, whatever part of the value its identity hash looks at
        let (dag2, ws, t2) = width_host_pair(bits);
        let Some(p2) = Prog::new(&dag2, fam) else {
            out.violation("widths:host", leg, format!("{bits} bits (pair)"), "the reference cannot type the two-witness host".into());
            continue;
        };
        let mk = |bv: Vec<bool>| RV::from_compact(&t2, &bv, &mut 0).expect("word product from bits");
        for (name, base) in [("zeros", false), ("ones", true)] {
            for flip in [0, bits - 1] {
                let a = mk(vec![base; bits]);
                let mut bv = vec![base; bits];
                bv[flip] = !base;
                let b = mk(bv);
                let mut wit = vec![None; dag2.len()];
                wit[ws[0]] = Some(a);
                wit[ws[1]] = Some(b);
                let label = || format!("two witnesses of {bits} bits: all {name}, and the same with bit {flip} flipped");
                if !ctx.begin(leg, &label) {
                    continue;
                }
                out.evaluations += 1;
                out.states += 1;
                out.nontrivial += 1;
                match guard(|| redeem_roundtrip(&p2, &wit, &jets, out)) {
                    Ok(Ok(())) => out.outcome("widths:ok"),
                    Ok(Err((c, d))) => out.violation(&c, leg, label(), d),
                    Err(e) => out.violation(&panic_class(&e), leg, label(), e),
                }
                ctx.end();
            }
        }
    }
}
