//! C19 - budget padding is sufficient and minimal.
//!
//! Space: witness stacks (item count x last item size straddling every compact-size boundary) x
//! costs whose deficit lies near each region edge. Oracle: compact-size arithmetic written from
//! the Bitcoin definition + brute-force search for the shortest sufficient annex.

use crate::engine::{guard, panic_class, Ctx, Out, PropDef};
use simplicity::bitcoin::Weight;
use simplicity::Cost;

pub static DEF: PropDef = PropDef {
    id: "C19",
    run,
    rule: "states = distinct (stack shape, cost) pairs; non-trivial = cost above budget (padding requested)",
    assumptions: &[
        "budget = serialized witness stack size + 50 weight units; serialized size computed from the compact-size definition, independently of the elements crate",
        "minimality is over annexes of length >= 1 (the 0x50 tag is mandatory) and is not required when the item count is 252 or 65535 (statement's exception)",
    ],
    shards: (16, 16),
    budget_ms: (60_000, 180_000),
};

fn cs_len(n: u64) -> u64 {
    if n <= 252 {
        1
    } else if n <= 0xffff {
        3
    } else if n <= 0xffff_ffff {
        5
    } else {
        9
    }
}

fn ser_len(count: u64, sum_items: u64, sum_prefix: u64) -> u64 {
    cs_len(count) + sum_items + sum_prefix
}

struct Stack {
    items: Vec<Vec<u8>>,
    desc: String,
}

fn stacks(thorough: bool) -> Vec<Stack> {
    let counts: Vec<usize> = if thorough {
        vec![0, 1, 2, 3, 251, 252, 253, 254, 65_534, 65_535, 65_536]
    } else {
        vec![0, 1, 2, 251, 252, 253, 65_534, 65_535, 65_536]
    };
    let sizes: Vec<usize> = if thorough {
        vec![0, 1, 2, 251, 252, 253, 254, 65_534, 65_535, 65_536, 65_537]
    } else {
        vec![0, 1, 252, 253, 65_535, 65_536]
    };
    let mut v = vec![];
    for &c in &counts {
        if c == 0 {
            v.push(Stack { items: vec![], desc: "count=0".into() });
            continue;
        }
        for &s in &sizes {
            let mut items = vec![vec![]; c - 1];
            items.push(vec![0xab; s]);
            v.push(Stack { items, desc: format!("count={c} last_item_size={s} (others empty)") });
        }
    }
    v
}

fn ref_budget(items: &[Vec<u8>]) -> u64 {
    let sum_items: u64 = items.iter().map(|i| i.len() as u64).sum();
    let sum_prefix: u64 = items.iter().map(|i| cs_len(i.len() as u64)).sum();
    ser_len(items.len() as u64, sum_items, sum_prefix) + 50
}

/// budget after appending an annex of `a` bytes
fn ref_budget_with_annex(items: &[Vec<u8>], a: u64) -> u64 {
    let sum_items: u64 = items.iter().map(|i| i.len() as u64).sum::<u64>() + a;
    let sum_prefix: u64 = items.iter().map(|i| cs_len(i.len() as u64)).sum::<u64>() + cs_len(a);
    ser_len(items.len() as u64 + 1, sum_items, sum_prefix) + 50
}

fn costs_for(budget: u64, thorough: bool) -> Vec<u32> {
    let mut w: Vec<i64> = vec![];
    // deficits (in weight units) near each region edge of the piecewise function, and small ones
    let edges: [i64; 12] = [0, 1, 2, 3, 253, 254, 255, 256, 65_538, 65_539, 65_540, 65_541];
    let r = if thorough { 6 } else { 3 };
    for e in edges {
        for d in -r..=r {
            w.push(e + d);
        }
    }
    let top = if thorough { 70_000 } else { 600 };
    for d in 0..=top {
        w.push(d);
    }
    for d in [100_000, 1_000_000, 3_000_000, 3_999_990, 4_000_000, 4_000_049, 4_000_050] {
        w.push(d - budget as i64);
    }
    let mut out = vec![0u32, 1, 999, 1000, 1001];
    for d in w {
        let weight = budget as i64 + d;
        if weight < 0 {
            continue;
        }
        for off in [-1001i64, -1000, -999, -1, 0, 1] {
            let mw = weight * 1000 + off;
            if mw >= 0 && mw <= 4_000_050_000 {
                out.push(mw as u32);
            }
        }
    }
    out.push(4_000_050_000);
    out.sort_unstable();
    out.dedup();
    out
}

fn run(ctx: &Ctx, out: &mut Out) {
    leg_padding(ctx, out);
    leg_conversions(ctx, out);
}

fn leg_padding(ctx: &Ctx, out: &mut Out) {
    let leg = "padding";
    let thorough = ctx.tier == crate::engine::Tier::Thorough;
    for st in stacks(thorough) {
        let budget = ref_budget(&st.items);
        let costs = costs_for(budget, thorough);
        for chunk in costs.chunks(if st.items.len() > 1000 { 8 } else { 256 }) {
            if !ctx.mine() {
                continue;
            }
            for &mw in chunk {
                let label = || format!("stack[{}] cost_milliweight={mw}", st.desc);
                if !ctx.begin(leg, &label) {
                    continue;
                }
                out.evaluations += 1;
                out.states += 1;
                match guard(|| check_one(&st, budget, mw, out)) {
                    Ok(None) => out.sample(leg, || (label(), format!("budget {budget}; is_budget_valid/get_padding agree with brute force"))),
                    Ok(Some((class, d))) => out.violation(&class, leg, label(), d),
                    Err(p) => out.violation(&panic_class(&p), leg, label(), p),
                }
                ctx.end();
            }
        }
    }
}

fn check_one(st: &Stack, budget: u64, mw: u32, out: &mut Out) -> Option<(String, String)> {
    let cost = Cost::from_milliweight(mw);
    let weight = (mw as u64).div_ceil(1000);
    let want_valid = weight <= budget;
    out.transitions += 2;
    let valid = cost.is_budget_valid(&st.items);
    if valid != want_valid {
        return Some(("budget:is_valid".into(), format!("is_budget_valid = {valid}; weight {weight}, budget {budget}")));
    }
    let pad = cost.get_padding(&st.items);
    match (&pad, want_valid) {
        (None, true) => {
            out.outcome("valid:no-padding");
            return None;
        }
        (Some(p), true) => {
            return Some(("budget:padding-when-valid".into(), format!("get_padding returned {} bytes although within budget", p.len())));
        }
        (None, false) => {
            return Some(("budget:no-padding-when-invalid".into(), format!("weight {weight} > budget {budget} but get_padding is None")));
        }
        (Some(_), false) => {}
    }
    out.nontrivial += 1;
    let p = pad.unwrap();
    if p.is_empty() || p[0] != 0x50 || p[1..].iter().any(|b| *b != 0) {
        return Some(("budget:annex-shape".into(), format!("annex is not 0x50 followed by zeros (len {})", p.len())));
    }
    let a = p.len() as u64;
    // sufficiency, judged by the reference and by the library on the extended stack
    if ref_budget_with_annex(&st.items, a) < weight {
        return Some(("budget:insufficient".into(), format!("annex of {a} bytes gives budget {} < weight {weight}", ref_budget_with_annex(&st.items, a))));
    }
    if st.items.len() < 1000 {
        let mut ext = st.items.clone();
        ext.push(p.clone());
        out.transitions += 1;
        if !cost.is_budget_valid(&ext) {
            return Some(("budget:insufficient-lib".into(), "is_budget_valid is false after appending the padding".into()));
        }
    }
    // minimality by brute force: the shortest annex length >= 1 that suffices
    let count = st.items.len() as u64;
    if count != 252 && count != 65_535 {
        let deficit = weight - budget;
        let lo = deficit.saturating_sub(12).max(1);
        let mut best = None;
        // budget is monotone in a, so scanning upwards from below the deficit finds the minimum;
        // first make sure nothing below `lo` suffices (monotonicity => test lo-1 only)
        if lo > 1 && ref_budget_with_annex(&st.items, lo - 1) >= weight {
            // fall back to a full scan
            for cand in 1..lo {
                if ref_budget_with_annex(&st.items, cand) >= weight {
                    best = Some(cand);
                    break;
                }
            }
        }
        if best.is_none() {
            for cand in lo..=deficit + 12 {
                if ref_budget_with_annex(&st.items, cand) >= weight {
                    best = Some(cand);
                    break;
                }
            }
        }
        match best {
            Some(b) if b == a => out.outcome("padded:minimal"),
            Some(b) => {
                return Some(("budget:not-minimal".into(), format!("annex has {a} bytes, an annex of {b} bytes already suffices (deficit {deficit})")));
            }
            None => return Some(("budget:oracle".into(), "reference found no sufficient annex".into())),
        }
    } else {
        out.outcome("padded:count-on-boundary");
    }
    None
}

fn leg_conversions(ctx: &Ctx, out: &mut Out) {
    let leg = "conversions";
    if !ctx.mine() {
        return;
    }
    let mut pts: Vec<u32> = vec![];
    for k in 0..=2000u32 {
        pts.push(k);
    }
    for base in [1_000_000u32, 4_000_049_000, 4_000_050_000] {
        for d in 0..=2000 {
            pts.push(base.saturating_sub(d));
            pts.push(base.saturating_add(d).min(4_000_050_000));
        }
    }
    pts.sort_unstable();
    pts.dedup();
    let mut prev: Option<(u32, u64)> = None;
    for &mw in &pts {
        if !ctx.begin(leg, &|| format!("milliweight={mw}")) {
            continue;
        }
        out.evaluations += 1;
        out.states += 1;
        out.transitions += 2;
        let r = guard(|| {
            let w: Weight = Cost::from_milliweight(mw).into();
            let back: Cost = w.into();
            (w.to_wu(), back)
        });
        match r {
            Ok((wu, back)) => {
                let want = (mw as u64).div_ceil(1000);
                if Cost::from_milliweight(mw).is_consensus_valid() != (mw <= 4_000_050_000) {
                    out.violation("conv:consensus-valid", leg, format!("milliweight={mw}"), "is_consensus_valid disagrees with the 4 000 050 weight unit limit".into());
                } else if wu != want {
                    out.violation("conv:round-up", leg, format!("milliweight={mw}"), format!("Weight = {wu}, ceil = {want}"));
                } else if back < Cost::from_milliweight(mw) || back != Cost::from_milliweight((want * 1000) as u32) {
                    out.violation("conv:back", leg, format!("milliweight={mw}"), format!("Cost->Weight->Cost = {back}"));
                } else if let Some((pm, pw)) = prev {
                    if pm <= mw && pw > wu {
                        out.violation("conv:monotone", leg, format!("milliweight={mw}"), "not monotone".into());
                    }
                }
                if mw % 1000 != 0 {
                    out.nontrivial += 1;
                }
                out.outcome("conv:ok");
                prev = Some((mw, wu));
            }
            Err(p) => out.violation(&panic_class(&p), leg, format!("milliweight={mw}"), p),
        }
        ctx.end();
    }
    // the consensus limit itself, from both sides and at the end of the range (conversions of costs above
    // the limit are documented as insignificant and are not judged)
    for mw in [0u32, 4_000_049_999, 4_000_050_000, 4_000_050_001, 4_000_051_000, u32::MAX - 1, u32::MAX] {
        if !ctx.begin(leg, &|| format!("is_consensus_valid milliweight={mw}")) {
            continue;
        }
        out.evaluations += 1;
        out.transitions += 1;
        match guard(|| Cost::from_milliweight(mw).is_consensus_valid()) {
            Ok(v) if v == (mw <= 4_000_050_000) => {}
            Ok(v) => out.violation("conv:consensus-valid", leg, format!("milliweight={mw}"), format!("is_consensus_valid = {v}")),
            Err(p) => out.violation(&panic_class(&p), leg, format!("milliweight={mw}"), p),
        }
        ctx.end();
    }
    // Weight -> Cost for weights around the saturation point
    for wu in [0u64, 1, 4_000_050, 4_294_967, 4_294_968, u32::MAX as u64, u32::MAX as u64 + 1, u64::MAX] {
        if !ctx.begin(leg, &|| format!("weight={wu}")) {
            continue;
        }
        out.evaluations += 1;
        out.transitions += 1;
        match guard(|| Cost::from(Weight::from_wu(wu))) {
            Ok(c) => {
                let want = wu.saturating_mul(1000).min(u32::MAX as u64) as u32;
                if c != Cost::from_milliweight(want) {
                    out.violation("conv:weight-to-cost", leg, format!("weight={wu}"), format!("Cost = {c}, expected {want}"));
                }
            }
            Err(p) => out.violation(&panic_class(&p), leg, format!("weight={wu}"), p),
        }
        ctx.end();
    }
}
