//! C04 - type inference is sound, principal and order-independent.
//! Every DAG in U(n <= N, Sigma) well-typed or not, as program and as expression, in every
//! topological construction order, each in a fresh context; oracle = textbook unifier.

use crate::engine::{alloc, guard, panic_class, Ctx, Out, PropDef, Tier};
use crate::reference::tyval::RT;
use crate::reference::unify::{infer, Infer};
use crate::space::dag::*;
use simplicity::dag::{DagLike, InternalSharing};
use simplicity::node::{CoreConstructible, WitnessConstructible};
use simplicity::types;
use std::rc::Rc;

pub static DEF: PropDef = PropDef {
    id: "C04",
    run,
    rule: "states = distinct (DAG, program|expression) cases; transitions = (case, construction order) inference runs on the real ConstructNode API; non-trivial = DAG has >= 1 shared node or is ill-typed",
    assumptions: &[
        "reference = Robinson unification with occurs check over the typing rules, free variables |-> unit",
        "only accept/reject, arrows and displayability of errors are compared; which error variant is returned may depend on the order",
        "each construction order runs in a fresh inference context that holds only the DAG's own nodes",
    ],
    shards: (32, 128),
    budget_ms: (60_000, 180_000),
};

pub fn final_rt(f: &types::Final) -> Rc<RT> {
    RT::from_final(f)
}

#[derive(Debug, Clone, PartialEq, Eq)]
enum Verdict {
    /// arrows per node (index order); None for nodes the commit DAG does not contain
    Ok(Vec<Option<(Rc<RT>, Rc<RT>)>>),
    Err,
}

/// Check that an error can be rendered within bounds. Returns Some(problem).
pub fn display_bounded(e: &dyn std::fmt::Display, d: &dyn std::fmt::Debug) -> Option<String> {
    let base = alloc::mark();
    let s = e.to_string();
    let g = format!("{d:?}");
    let peak = alloc::peak_since(base);
    if s.is_empty() {
        return Some("empty error message".into());
    }
    if peak > (4 << 20) || s.len() > (1 << 20) || g.len() > (1 << 20) {
        return Some(format!("rendering the error allocates {} bytes (message {} bytes, debug {} bytes)", peak, s.len(), g.len()));
    }
    None
}

/// Run library inference on the DAG with one construction order in a fresh context.
fn lib_infer(dag: &[Node], fam: Fam, order: &[usize], program: bool) -> Result<Verdict, (String, String)> {
    types::Context::with_context(|ctx| {
        let built = match build_in_order(&ctx, dag, fam, order, &|_| None) {
            Ok(b) => b,
            Err((i, e)) => {
                // The same DAG once more in a fresh context, every rejected constructor call repeated once:
                // whatever a failed unification leaves behind, the program must not end up accepted.
                // Known finding F17: when the nodes built before the failing call already carry cyclic
                // (infinite) constraints - which the library only checks at finalisation - a failed
                // unification rewrites part of the cycle into finite types, the repeated call is accepted and the
                // program finalises (or finalisation panics). Such cases get their own class.
                let pos = order.iter().position(|x| *x == i).unwrap_or(0);
                let cyclic = {
                    let mut idx = vec![usize::MAX; dag.len()];
                    let mut sub: Vec<Node> = vec![];
                    let mut keep: Vec<usize> = order[..pos].to_vec();
                    keep.sort_unstable();
                    for (k, &j) in keep.iter().enumerate() {
                        idx[j] = k;
                    }
                    for &j in &keep {
                        let n = dag[j];
                        sub.push(Node { sym: n.sym, l: if n.sym.arity() >= 1 { idx[n.l as usize] as u8 } else { 0 }, r: if n.sym.arity() >= 2 { idx[n.r as usize] as u8 } else { 0 } });
                    }
                    // (the cycle may also be closed by the rejected call itself: then the reference reports an
                    // occurs-check failure for the whole DAG)
                    (!sub.is_empty() && matches!(infer(&sub, fam, false), Infer::Err(_, crate::reference::unify::UErr::Occurs)))
                        || matches!(infer(dag, fam, program), Infer::Err(_, crate::reference::unify::UErr::Occurs))
                };
                let suffix = if cyclic { ":cyclic-constraints" } else { "" };
                let again = guard(|| {
                    types::Context::with_context(|ctx2| match crate::space::dag::build_in_order_retrying(&ctx2, dag, fam, order) {
                        Ok((b, true)) => {
                            let root = &b[dag.len() - 1];
                            if program { root.finalize_types().is_ok() } else { root.finalize_types_non_program().is_ok() }
                        }
                        _ => false,
                    })
                });
                match again {
                    Ok(false) => {}
                    Ok(true) => {
                        return Err((format!("verdict:accepted-on-retry{suffix}"), format!("the constructor of node {i} is rejected ({e}); when the rejected call is simply repeated, construction and finalisation of the whole program succeed")));
                    }
                    Err(p) => {
                        return Err((format!("verdict:panic-on-retry{suffix}"), format!("the constructor of node {i} is rejected ({e}); when the rejected call is repeated, construction or finalisation panics: {p}")));
                    }
                }
                if let Some(p) = display_bounded(&e, &e) {
                    return Err(("error-display".to_string(), p));
                }
                return Ok(Verdict::Err);
            }
        };
        let root = &built[dag.len() - 1];
        let res = if program { root.finalize_types() } else { root.finalize_types_non_program() };
        match res {
            Err(e) => {
                if let Some(p) = display_bounded(&e, &e) {
                    return Err(("error-display".to_string(), p));
                }
                Ok(Verdict::Err)
            }
            Ok(commit) => {
                // At commitment time a disconnect node has one child; the nodes of the DAG that
                // the commit DAG contains, in its post-order, are computed on the reference side.
                let present = commit_order(dag);
                let mut arrows: Vec<Option<(Rc<RT>, Rc<RT>)>> = vec![None; dag.len()];
                let mut k = 0;
                for item in commit.as_ref().post_order_iter::<InternalSharing>() {
                    let a = item.node.arrow();
                    if k >= present.len() {
                        return Err(("shape".to_string(), format!("finalized DAG has more than the expected {} nodes", present.len())));
                    }
                    arrows[present[k]] = Some((final_rt(&a.source), final_rt(&a.target)));
                    k += 1;
                }
                if k != present.len() {
                    return Err(("shape".to_string(), format!("finalized DAG has {} nodes, expected {}", k, present.len())));
                }
                Ok(Verdict::Ok(arrows))
            }
        }
    })
}

/// Indices of the DAG nodes a CommitNode contains (disconnect keeps only its left child), in the
/// commit DAG's pointer-sharing post-order.
fn commit_order(dag: &[Node]) -> Vec<usize> {
    fn go(dag: &[Node], i: usize, seen: &mut Vec<bool>, out: &mut Vec<usize>) {
        if seen[i] {
            return;
        }
        let n = dag[i];
        match n.sym.arity() {
            0 => {}
            1 => go(dag, n.l as usize, seen, out),
            _ => {
                go(dag, n.l as usize, seen, out);
                if n.sym != Sym::Disc2 {
                    go(dag, n.r as usize, seen, out);
                }
            }
        }
        if !seen[i] {
            seen[i] = true;
            out.push(i);
        }
    }
    let mut out = vec![];
    go(dag, dag.len() - 1, &mut vec![false; dag.len()], &mut out);
    out
}

/// local typing rule check at node i given all arrows (needs no reference)
fn rule_ok(dag: &[Node], i: usize, ar: &[(Rc<RT>, Rc<RT>)], fam: Fam) -> bool {
    let n = dag[i];
    let (s, t) = (&ar[i].0, &ar[i].1);
    let (l, r) = (n.l as usize, n.r as usize);
    let prod = |x: &Rc<RT>| match &**x {
        RT::Prod(a, b) => Some((a.clone(), b.clone())),
        _ => None,
    };
    let sum = |x: &Rc<RT>| match &**x {
        RT::Sum(a, b) => Some((a.clone(), b.clone())),
        _ => None,
    };
    match n.sym {
        Sym::Iden => s == t,
        Sym::Unit => **t == RT::Unit,
        Sym::Witness | Sym::Fail(_) => true,
        Sym::Word(k, _) => **s == RT::Unit && *t == RT::word(k as usize),
        Sym::Jet(j) => {
            let jet = fam.jet(j);
            *s == final_rt(&jet.source_ty().to_final()) && *t == final_rt(&jet.target_ty().to_final())
        }
        Sym::InjL => *s == ar[l].0 && sum(t).map(|(a, _)| a == ar[l].1).unwrap_or(false),
        Sym::InjR => *s == ar[l].0 && sum(t).map(|(_, b)| b == ar[l].1).unwrap_or(false),
        Sym::Take => *t == ar[l].1 && prod(s).map(|(a, _)| a == ar[l].0).unwrap_or(false),
        Sym::Drop => *t == ar[l].1 && prod(s).map(|(_, b)| b == ar[l].0).unwrap_or(false),
        Sym::Comp => *s == ar[l].0 && ar[l].1 == ar[r].0 && *t == ar[r].1,
        Sym::Pair => *s == ar[l].0 && *s == ar[r].0 && prod(t).map(|(a, b)| a == ar[l].1 && b == ar[r].1).unwrap_or(false),
        Sym::Case | Sym::AssertL(_) | Sym::AssertR(_) => {
            let Some((ab, c)) = prod(s) else { return false };
            let Some((a, b)) = sum(&ab) else { return false };
            let left_ok = |k: usize| prod(&ar[k].0).map(|(x, y)| x == a && y == c).unwrap_or(false) && ar[k].1 == *t;
            let right_ok = |k: usize| prod(&ar[k].0).map(|(x, y)| x == b && y == c).unwrap_or(false) && ar[k].1 == *t;
            match n.sym {
                Sym::Case => left_ok(l) && right_ok(r),
                Sym::AssertL(_) => left_ok(l),
                _ => right_ok(l),
            }
        }
        Sym::Disc1 | Sym::Disc2 => {
            let Some((h, a)) = prod(&ar[l].0) else { return false };
            let Some((b, c)) = prod(&ar[l].1) else { return false };
            let Some((b2, d)) = prod(t) else { return false };
            let base = h == RT::word(8) && a == *s && b == b2;
            if n.sym == Sym::Disc2 {
                base && ar[r].0 == c && ar[r].1 == d
            } else {
                base
            }
        }
    }
}

fn alphabets(tier: Tier, fam: Fam) -> Vec<(usize, Vec<Sym>, &'static str)> {
    let core = sigma_core(fam);
    let mut v = vec![];
    let n_full = tier.pick(5, 6);
    for n in 1..=n_full {
        v.push((n, core.clone(), "core"));
    }
    // jets of other arrow shapes, wider words and a second fail / hidden symbol: n <= 3 (4 thorough)
    let mut ext = vec![
        Sym::Iden,
        Sym::Unit,
        Sym::Witness,
        Sym::Word(1, 2),
        Sym::Word(3, 0xa5),
        Sym::Jet(fam.find("add_8")),
        Sym::Jet(fam.find("eq_8")),
        Sym::Jet(fam.find("low_8")),
        Sym::Jet(fam.find("sha_256_ctx_8_init")),
        Sym::Fail(1),
        Sym::InjL,
        Sym::Take,
        Sym::Drop,
        Sym::AssertL(9),
        Sym::Comp,
        Sym::Case,
        Sym::Pair,
        Sym::Disc2,
    ];
    ext.dedup();
    for n in 1..=tier.pick(4, 5) {
        v.push((n, ext.clone(), "ext"));
    }
    if tier == Tier::Thorough {
        let reduced = vec![Sym::Iden, Sym::Unit, Sym::Witness, Sym::InjL, Sym::Take, Sym::Comp, Sym::Case, Sym::Pair];
        v.push((7, reduced, "reduced"));
    }
    v
}

fn run(ctx: &Ctx, out: &mut Out) {
    leg_dags(ctx, out);
    leg_jets(ctx, out);
    leg_bombs(ctx, out);
}

fn leg_dags(ctx: &Ctx, out: &mut Out) {
    let leg = "dags";
    let fam = Fam::Core;
    for (n, alpha, aname) in alphabets(ctx.tier, fam) {
        let all_orders = n <= 6;
        let mut cases: Vec<Dag> = vec![];
        // collect per shard, then run (enumeration and execution separated so that `mine` is cheap)
        enum_dags(n, &alpha, 3, &mut || ctx.mine(), &mut |d| cases.push(d.to_vec()));
        for dag in &cases {
            check_dag(ctx, out, leg, dag, fam, aname, all_orders);
        }
    }
}

fn check_dag(ctx: &Ctx, out: &mut Out, leg: &str, dag: &[Node], fam: Fam, aname: &str, all_orders: bool) {
    let orders = if all_orders { linear_extensions(dag) } else { vec![(0..dag.len()).collect()] };
    for program in [true, false] {
        let label = || format!("[{aname}] {} as {}", render(dag, fam), if program { "program" } else { "expression" });
        if !ctx.begin(leg, &label) {
            continue;
        }
        out.evaluations += 1;
        out.states += 1;
        let reference = infer(dag, fam, program);
        let ill = matches!(reference, Infer::Err(..));
        if shared_nodes(dag) > 0 || ill {
            out.nontrivial += 1;
        }
        let mut first: Option<Verdict> = None;
        for (oi, order) in orders.iter().enumerate() {
            out.transitions += 1;
            let r = guard(|| lib_infer(dag, fam, order, program));
            let v = match r {
                Ok(Ok(v)) => v,
                Ok(Err((class, d))) => {
                    out.violation(&class, leg, label(), format!("order {order:?}: {d}"));
                    break;
                }
                Err(p) => {
                    out.violation(&panic_class(&p), leg, label(), format!("order {order:?}: {p}"));
                    break;
                }
            };
            // (1) verdict and (2) arrows against the reference
            match (&v, &reference) {
                (Verdict::Ok(ar), Infer::Ok(want)) => {
                    if let Some(i) = (0..dag.len()).find(|i| ar[*i].as_ref().map(|a| *a != want[*i]).unwrap_or(false)) {
                        let a = ar[i].as_ref().unwrap();
                        out.violation("arrows:not-principal", leg, label(), format!("order {order:?}: node {i} has {} -> {}, principal solution {} -> {}", a.0, a.1, want[i].0, want[i].1));
                        break;
                    }
                    // local rule check on the library's own arrows (absent nodes taken from the reference)
                    let full: Vec<(Rc<RT>, Rc<RT>)> = (0..dag.len()).map(|i| ar[i].clone().unwrap_or_else(|| want[i].clone())).collect();
                    if let Some(i) = (0..dag.len()).find(|i| ar[*i].is_some() && !rule_ok(dag, *i, &full, fam)) {
                        out.violation("arrows:rule", leg, label(), format!("node {i} violates its typing rule"));
                        break;
                    }
                }
                (Verdict::Err, Infer::Err(..)) => {}
                (Verdict::Ok(_), Infer::Err(i, e)) => {
                    out.violation("verdict:accepts-ill-typed", leg, label(), format!("order {order:?}: library finalises, reference fails at node {i} with {e:?}"));
                    break;
                }
                (Verdict::Err, Infer::Ok(_)) => {
                    out.violation("verdict:rejects-well-typed", leg, label(), format!("order {order:?}: library rejects, reference has a finite solution"));
                    break;
                }
            }
            // (3) order independence
            if oi == 0 {
                first = Some(v);
            } else if first.as_ref() != Some(&v) {
                out.violation("order-dependent", leg, label(), format!("order {order:?} differs from order {:?}", orders[0]));
                break;
            }
        }
        out.max("orders", orders.len() as u64);
        out.outcome(match (&first, program) {
            (Some(Verdict::Ok(_)), true) => "program:well-typed",
            (Some(Verdict::Ok(_)), false) => "expression:well-typed",
            (Some(Verdict::Err), _) => "ill-typed",
            (None, _) => "aborted",
        });
        if matches!(first, Some(Verdict::Ok(_))) && shared_nodes(dag) > 0 {
            out.sample(leg, || (label(), format!("{} construction orders, all equal to the reference solution", orders.len())));
        }
        ctx.end();
    }
}

/// every jet of both families as a typed leaf in all DAGs with <= 3 nodes over a small alphabet
fn leg_jets(ctx: &Ctx, out: &mut Out) {
    let leg = "jets";
    for fam in [Fam::Core, Fam::Elements] {
        for j in 0..fam.n_jets() as u16 {
            if !ctx.mine() {
                continue;
            }
            let alpha = vec![Sym::Jet(j), Sym::Unit, Sym::Iden, Sym::Witness, Sym::Comp, Sym::Pair, Sym::InjL, Sym::Take, Sym::Drop, Sym::Case];
            for n in 1..=3 {
                let mut cases: Vec<Dag> = vec![];
                enum_dags(n, &alpha, 99, &mut || true, &mut |d| {
                    if d.iter().any(|x| x.sym == Sym::Jet(j)) {
                        cases.push(d.to_vec())
                    }
                });
                for dag in &cases {
                    check_dag(ctx, out, leg, dag, fam, "jet", true);
                }
            }
        }
    }
}

/// deeply shared DAGs: k pair-doublings of a base, then a consumer; verdict by the reference rule
/// "k doublings of a b-bit type have 2^k * b bits", checked for termination, displayability and
/// the expected verdict.
fn leg_bombs(ctx: &Ctx, out: &mut Out) {
    let leg = "bombs";
    let ks: &[usize] = if ctx.tier == Tier::Thorough { &[1, 2, 8, 16, 24, 31, 32, 33, 48, 63, 64, 65, 70, 100] } else { &[2, 16, 31, 32, 33, 64, 70] };
    let bases = ["witness", "bit", "iden-cycle"];
    let tails = ["none", "comp-unit", "comp-verify", "comp-take-mismatch", "pair-self-mismatch"];
    for &k in ks {
        for base in bases {
            for tail in tails {
                if !ctx.mine() {
                    continue;
                }
                for program in [true, false] {
                    let label = || format!("base={base} doublings={k} tail={tail} as {}", if program { "program" } else { "expression" });
                    if !ctx.begin(leg, &label) {
                        continue;
                    }
                    out.evaluations += 1;
                    out.states += 1;
                    out.transitions += 1;
                    out.nontrivial += 1;
                    let base_mark = alloc::mark();
                    let r = guard(|| bomb(k, base, tail, program));
                    let peak = alloc::peak_since(base_mark);
                    match r {
                        Ok(Ok(accepted)) => {
                            // expected verdicts that need no reference run
                            let expect: Option<bool> = match (base, tail, program) {
                                // comp _ unit : A -> 1 is well typed for every k (source free -> unit)
                                ("witness", "comp-unit", _) | ("bit", "comp-unit", _) => Some(true),
                                // a bare doubled expression is well typed as an expression
                                ("witness", "none", false) | ("bit", "none", false) => Some(true),
                                // target is a product, never unit
                                ("witness", "none", true) | ("bit", "none", true) => Some(false),
                                // verify wants 2: only k = 0 would fit
                                (_, "comp-verify", _) => Some(false),
                                ("iden-cycle", _, _) => Some(false),
                                _ => None,
                            };
                            if let Some(e) = expect {
                                if e != accepted {
                                    out.violation(if accepted { "bomb:accepts-ill-typed" } else { "bomb:rejects-well-typed" }, leg, label(), format!("library {}", if accepted { "accepted" } else { "rejected" }));
                                }
                            }
                            if peak > (64 << 20) {
                                out.violation("bomb:memory", leg, label(), format!("peak allocation {peak} bytes for a DAG of {} nodes", k + 4));
                            }
                            out.outcome(if accepted { "bomb:accepted" } else { "bomb:rejected" });
                            out.sample(leg, || (label(), format!("{}; peak {} bytes", if accepted { "accepted" } else { "rejected, error displayed" }, peak)));
                        }
                        Ok(Err((class, d))) => out.violation(&format!("bomb:{class}"), leg, label(), d),
                        Err(p) => out.violation(&panic_class(&p), leg, label(), p),
                    }
                    ctx.end();
                }
            }
        }
    }
}

fn bomb(k: usize, base: &str, tail: &str, program: bool) -> Result<bool, (String, String)> {
    types::Context::with_context(|ctx| {
        let chk = |e: types::Error| -> Result<bool, (String, String)> {
            match display_bounded(&e, &e) {
                Some(p) => Err(("error-display".into(), p)),
                None => Ok(false),
            }
        };
        let mut x: CNode = match base {
            "witness" => CNode::witness(&ctx, None),
            "bit" => CNode::const_word(&ctx, word_of(0, 1)),
            _ => {
                // iden forced to A -> A x A style cycle: pair iden iden composed with itself later
                CNode::iden(&ctx)
            }
        };
        for _ in 0..k {
            x = match CNode::pair(&x, &x) {
                Ok(p) => p,
                Err(e) => return chk(e),
            };
            if base == "iden-cycle" {
                // comp x x : forces A = A x A after the first doubling
                x = match CNode::comp(&x, &x) {
                    Ok(p) => p,
                    Err(e) => return chk(e),
                };
            }
        }
        let unit = CNode::unit(&ctx);
        let root = match tail {
            "none" => Ok(x),
            "comp-unit" => CNode::comp(&x, &unit),
            "comp-verify" => CNode::comp(&x, &CNode::jet(&ctx, &simplicity::jet::Core::Verify)),
            "comp-take-mismatch" => {
                // take unit : 1 x B -> 1 fed with the doubled type as B, then unified against bit
                let t = CNode::take(&unit);
                CNode::comp(&x, &t).and_then(|c| CNode::pair(&c, &x)).and_then(|p| CNode::comp(&p, &CNode::jet(&ctx, &simplicity::jet::Core::Verify)))
            }
            _ => CNode::pair(&x, &CNode::injl(&x)).and_then(|p| CNode::comp(&p, &CNode::comp(&CNode::take(&CNode::iden(&ctx)), &x)?)),
        };
        let root = match root {
            Ok(r) => r,
            Err(e) => return chk(e),
        };
        let res = if program { root.finalize_types() } else { root.finalize_types_non_program() };
        match res {
            Ok(_) => Ok(true),
            Err(e) => chk(e),
        }
    })
}
