//! C09 - the commitment root depends only on committed structure.
//! (scratch) every constructible DAG: every node's CMR against tagged SHA-256 from scratch;
//! (hide) every node hidden through the Hiding wrapper; (convert) explicit-state search over the
//! conversion graph between node kinds with witness / disconnect changes, invariant = reference
//! CMR in every state; (inject) distinct committed structures get distinct roots.

use crate::engine::{guard, panic_class, Ctx, Out, PropDef, Tier};
use crate::reference::merkle::{Merkle, H};
use crate::reference::tyval::*;
use crate::space::dag::*;
use crate::space::programs::*;
use crate::props::c01::{commit_order, sigma_p};
use simplicity::dag::{DagLike, InternalSharing};
use simplicity::human_encoding::NamedCommitNode;
use simplicity::jet::{Core, Elements};
use simplicity::node::{CommitNode, ConstructNode, CoreConstructible, DisconnectConstructible, Hiding, RedeemNode, SimpleFinalizer, WitnessConstructible};
use simplicity::{types, BitIter, Cmr, FailEntropy, HasCmr};
use std::collections::{HashMap, HashSet, VecDeque};
use std::rc::Rc;
use std::sync::Arc;

pub static DEF: PropDef = PropDef {
    id: "C09",
    run,
    rule: "states = distinct canonical (program, representation, hidden set, disconnect filling) states + distinct DAGs whose every node is re-hashed; transitions = conversion / hiding / re-hash steps on the real nodes; non-trivial = DAG has witness, disconnect, assertion, word or jet",
    assumptions: &[
        "reference CMR = SHA-256 compression written from FIPS 180-4 with IVs recomputed from the tag strings; jet CMRs are atoms (C14 compares them with the C tables)",
        "canonical state drops witness content and disconnect-branch content after the invariant was evaluated; no transition's enabledness depends on them",
        "injectivity is over the enumerated population only (no cryptographic claim)",
    ],
    shards: (32, 128),
    budget_ms: (60_000, 180_000),
};

/// reference CMR of every node of the DAG
pub fn ref_cmrs(dag: &[Node], fam: Fam, m: &mut Merkle) -> Vec<H> {
    let mut v: Vec<H> = Vec::with_capacity(dag.len());
    for n in dag {
        let (l, r) = (n.l as usize, n.r as usize);
        let h = match n.sym {
            Sym::Iden => m.cmr_leaf("iden"),
            Sym::Unit => m.cmr_leaf("unit"),
            Sym::Witness => m.cmr_leaf("witness"),
            Sym::Fail(e) => m.cmr_fail(&[e; 64]),
            Sym::Word(k, val) => {
                let bits: Vec<bool> = (0..(1usize << k)).rev().map(|b| val >> b & 1 == 1).collect();
                m.cmr_word(k as usize, &bits)
            }
            Sym::Jet(j) => fam.jet(j).cmr().to_byte_array(),
            Sym::InjL => m.cmr_unary("injl", &v[l]),
            Sym::InjR => m.cmr_unary("injr", &v[l]),
            Sym::Take => m.cmr_unary("take", &v[l]),
            Sym::Drop => m.cmr_unary("drop", &v[l]),
            Sym::AssertL(h) => m.cmr_binary("case", &v[l], &[h; 32]),
            Sym::AssertR(h) => m.cmr_binary("case", &[h; 32], &v[l]),
            Sym::Disc1 | Sym::Disc2 => m.cmr_unary("disconnect", &v[l]),
            Sym::Comp => m.cmr_binary("comp", &v[l], &v[r]),
            Sym::Case => m.cmr_binary("case", &v[l], &v[r]),
            Sym::Pair => m.cmr_binary("pair", &v[l], &v[r]),
        };
        v.push(h);
    }
    v
}

fn alphabet(fam: Fam) -> Vec<Sym> {
    let mut v = sigma_p(fam);
    v.extend([Sym::Word(1, 2), Sym::Word(3, 0xa5), Sym::Jet(fam.find("add_8"))]);
    v
}

fn run(ctx: &Ctx, out: &mut Out) {
    leg_policies(ctx, out);
    leg_scratch_and_hide(ctx, out);
    leg_convert(ctx, out);
    leg_confusable(ctx, out);
    leg_inject(ctx, out);
    leg_words(ctx, out);
}

fn leg_scratch_and_hide(ctx: &Ctx, out: &mut Out) {
    let leg = "scratch";
    let mut m = Merkle::default();
    for fam in [Fam::Core, Fam::Elements] {
        let nmax = ctx.tier.pick(5, 6);
        let alpha = if fam == Fam::Core { alphabet(fam) } else { sigma_core(fam) };
        for n in 1..=nmax {
            let mut dags: Vec<Dag> = vec![];
            enum_dags(n, &alpha, 3, &mut || ctx.mine(), &mut |d| dags.push(d.to_vec()));
            for dag in &dags {
                let label = || render(dag, fam);
                if !ctx.begin(leg, &label) {
                    continue;
                }
                let want = ref_cmrs(dag, fam, &mut m);
                let r = guard(|| scratch_one(dag, fam, &want, out, ctx.tier));
                match r {
                    Ok(Ok(true)) => {
                        out.evaluations += 1;
                        out.states += 1;
                        if dag.iter().any(|x| !matches!(x.sym, Sym::Iden | Sym::Unit | Sym::InjL | Sym::InjR | Sym::Take | Sym::Drop | Sym::Comp | Sym::Pair | Sym::Case)) {
                            out.nontrivial += 1;
                        }
                        out.outcome("scratch:ok");
                        out.sample(leg, || (label(), format!("root CMR {} re-hashed from scratch at every node; unchanged by finalisation and by hiding any node", crate::reference::bits::hex(&want[dag.len() - 1]))));
                    }
                    Ok(Ok(false)) => out.outcome("not-constructible"),
                    Ok(Err((c, d))) => out.violation(&c, leg, label(), d),
                    Err(p) => out.violation(&panic_class(&p), leg, label(), p),
                }
                ctx.end();
            }
        }
    }
}

type HC<'b> = Hiding<'b, Arc<ConstructNode<'b>>>;

fn build_hiding<'b>(ctx: &types::Context<'b>, dag: &[Node], fam: Fam, hide: &[bool]) -> Result<HC<'b>, types::Error> {
    let mut built: Vec<HC<'b>> = vec![];
    for (i, n) in dag.iter().enumerate() {
        let (l, r) = (n.l as usize, n.r as usize);
        let x: HC<'b> = match n.sym {
            Sym::Iden => HC::iden(ctx),
            Sym::Unit => HC::unit(ctx),
            Sym::Witness => HC::witness(ctx, None),
            Sym::Fail(e) => HC::fail(ctx, FailEntropy::from_byte_array([e; 64])),
            Sym::Word(k, v) => HC::const_word(ctx, word_of(k, v)),
            Sym::Jet(j) => HC::jet(ctx, fam.jet(j).as_ref()),
            Sym::InjL => HC::injl(&built[l]),
            Sym::InjR => HC::injr(&built[l]),
            Sym::Take => HC::take(&built[l]),
            Sym::Drop => HC::drop_(&built[l]),
            Sym::AssertL(h) => HC::assertl(&built[l], hidden_cmr(h))?,
            Sym::AssertR(h) => HC::assertr(hidden_cmr(h), &built[l])?,
            Sym::Disc1 => HC::disconnect(&built[l], &None)?,
            Sym::Comp => HC::comp(&built[l], &built[r])?,
            Sym::Case => HC::case(&built[l], &built[r])?,
            Sym::Pair => HC::pair(&built[l], &built[r])?,
            Sym::Disc2 => HC::disconnect(&built[l], &built[r].as_node().cloned())?,
        };
        built.push(if hide[i] { x.hide() } else { x });
    }
    Ok(built.pop().unwrap())
}

fn scratch_one(dag: &[Node], fam: Fam, want: &[H], out: &mut Out, tier: Tier) -> Result<bool, (String, String)> {
    let n = dag.len();
    let ok = types::Context::with_context(|ctx| -> Result<bool, (String, String)> {
        let built = match build(&ctx, dag, fam, &|_| None) {
            Ok(b) => b,
            Err(_) => return Ok(false),
        };
        out.transitions += n as u64;
        for i in 0..n {
            if built[i].cmr().to_byte_array() != want[i] {
                return Err(("cmr:construct".into(), format!("node {i}: library CMR {} differs from the re-hashed {}", built[i].cmr(), crate::reference::bits::hex(&want[i]))));
            }
        }
        // type inference must not change any CMR
        if let Ok(commit) = built[n - 1].finalize_types_non_program() {
            let order = commit_order(dag);
            for (k, item) in commit.as_ref().post_order_iter::<InternalSharing>().enumerate() {
                out.transitions += 1;
                if item.node.cmr().to_byte_array() != want[order[k]] {
                    return Err(("cmr:after-inference".into(), format!("DAG node {}: CMR changed by finalize_types_non_program", order[k])));
                }
            }
        }
        // the named / textual form is one more conversion path: a program that renders to text which parses
        // (whether it does is C17's subject) must come back with the root it had
        if let Ok(commit) = built[n - 1].finalize_types() {
            let text = simplicity::human_encoding::Forest::from_program(commit).string_serialize();
            out.transitions += 1;
            let parsed = match fam {
                Fam::Core => simplicity::human_encoding::Forest::parse::<simplicity::jet::Core>(&text),
                Fam::Elements => simplicity::human_encoding::Forest::parse::<simplicity::jet::Elements>(&text),
            };
            if let Ok(f) = parsed {
                if let Some(main) = f.roots().get("main") {
                    if main.cmr().to_byte_array() != want[n - 1] {
                        return Err(("cmr:text-round-trip".into(), format!("the program rendered as text and parsed again has root {}, re-hashed {}", main.cmr(), crate::reference::bits::hex(&want[n - 1]))));
                    }
                }
            }
        }
        Ok(true)
    })?;
    if !ok {
        return Ok(false);
    }
    // hiding: every single node (thorough: every pair) replaced by a hidden node carrying its root
    let mut masks: Vec<Vec<bool>> = (0..n).map(|i| (0..n).map(|k| k == i).collect()).collect();
    // pairs as well: e.g. both children of one case hidden is a code path of its own in the wrapper
    for i in 0..n {
        for j in 0..i {
            masks.push((0..n).map(|k| k == i || k == j).collect());
        }
    }
    if tier == Tier::Thorough {
        for i in 0..n {
            for j in 0..i {
                for l in 0..j {
                    masks.push((0..n).map(|k| k == i || k == j || k == l).collect());
                }
            }
        }
    }
    for mask in &masks {
        out.transitions += 1;
        let r = types::Context::with_context(|ctx| build_hiding(&ctx, dag, fam, mask).map(|h| (h.cmr(), h.as_node().map(|x| x.cmr()))));
        match r {
            Ok((c, inner)) => {
                if c.to_byte_array() != want[n - 1] || inner.map(|x| x.to_byte_array() != want[n - 1]).unwrap_or(false) {
                    return Err(("cmr:hiding".into(), format!("hiding nodes {mask:?} changes the root CMR to {c}")));
                }
            }
            // hiding removes type constraints, it can never add one: a type error here is a defect
            Err(e) => return Err(("cmr:hiding-type-error".into(), format!("hiding nodes {mask:?} makes construction fail: {e}"))),
        }
    }
    Ok(true)
}

// ---------------------------------------------------------------------------------------------
// conversion graph

#[derive(Clone, Copy, Debug, PartialEq, Eq, Hash, PartialOrd, Ord)]
enum Tr {
    FinalizeTypes,
    FinalizeUnpruned,
    CommitFinalize,
    Unfinalize,
    UnfinalizeTypes,
    ToConstruct,
    ToNamed,
    NamedToCommit,
    NamedToConstruct,
    EncodeDecode,
    ChangeWitness,
    DetachBranches,
    AttachBranches,
    HideCaseChild,
}
const ALL_TR: &[Tr] = &[Tr::FinalizeTypes, Tr::FinalizeUnpruned, Tr::CommitFinalize, Tr::Unfinalize, Tr::UnfinalizeTypes, Tr::ToConstruct, Tr::ToNamed, Tr::NamedToCommit, Tr::NamedToConstruct, Tr::EncodeDecode, Tr::ChangeWitness, Tr::DetachBranches, Tr::AttachBranches, Tr::HideCaseChild];

enum Rep<'b> {
    Construct(Arc<ConstructNode<'b>>),
    Commit(Arc<CommitNode>),
    Redeem(Arc<RedeemNode>),
    Named(Arc<NamedCommitNode>),
}

impl Rep<'_> {
    fn kind(&self) -> &'static str {
        match self {
            Rep::Construct(_) => "construct",
            Rep::Commit(_) => "commit",
            Rep::Redeem(_) => "redeem",
            Rep::Named(_) => "named",
        }
    }
    fn root_cmr(&self) -> Cmr {
        match self {
            Rep::Construct(n) => n.cmr(),
            Rep::Commit(n) => n.cmr(),
            Rep::Redeem(n) => n.cmr(),
            Rep::Named(n) => n.cmr(),
        }
    }
    /// multiset of all node CMRs reachable (pointer sharing), sorted
    fn all_cmrs(&self) -> Vec<[u8; 32]> {
        let mut v: Vec<[u8; 32]> = match self {
            Rep::Construct(n) => n.as_ref().post_order_iter::<InternalSharing>().map(|d| d.node.cmr().to_byte_array()).collect(),
            Rep::Commit(n) => n.as_ref().post_order_iter::<InternalSharing>().map(|d| d.node.cmr().to_byte_array()).collect(),
            Rep::Redeem(n) => n.as_ref().post_order_iter::<InternalSharing>().map(|d| d.node.cmr().to_byte_array()).collect(),
            Rep::Named(n) => n.as_ref().post_order_iter::<InternalSharing>().map(|d| d.node.cmr().to_byte_array()).collect(),
        };
        v.sort_unstable();
        v.dedup();
        v
    }
}

struct Env<'a> {
    prog: &'a Prog,
    fam: Fam,
}

/// Build the initial construct node: witness assignment `wsel` (index into per-node value menus),
/// branches attached or detached, `hide` = DAG indices of case children replaced by their CMR.
fn build_construct<'b>(ctx: &types::Context<'b>, env: &Env, wsel: usize, attached: bool, hide: &[usize]) -> Result<Arc<ConstructNode<'b>>, String> {
    let p = env.prog;
    let mut built: Vec<Option<Arc<ConstructNode<'b>>>> = vec![None; p.dag.len()];
    for (i, n) in p.dag.iter().enumerate() {
        let get = |k: u8| built[k as usize].clone().unwrap();
        let node = match n.sym {
            Sym::Witness => {
                let t = &p.arrows[i].1;
                let vals = if t.cardinality() <= 8 { values_of(t, 8).0 } else { corner_values(t) };
                let v = &vals[wsel % vals.len()];
                Arc::<ConstructNode>::witness(ctx, Some(v.to_value(t)))
            }
            Sym::Disc2 if !attached => Arc::<ConstructNode>::disconnect(&get(n.l), &None).map_err(|e| e.to_string())?,
            Sym::Case if hide.contains(&(n.r as usize)) => Arc::<ConstructNode>::assertl(&get(n.l), get(n.r).cmr()).map_err(|e| e.to_string())?,
            Sym::Case if hide.contains(&(n.l as usize)) => Arc::<ConstructNode>::assertr(get(n.l).cmr(), &get(n.r)).map_err(|e| e.to_string())?,
            _ => build_node(ctx, *n, env.fam, &get, None).map_err(|e| e.to_string())?,
        };
        built[i] = Some(node);
    }
    Ok(built.pop().unwrap().unwrap())
}

#[derive(Clone, Debug, PartialEq, Eq, Hash)]
struct Abs {
    wsel: usize,
    attached: bool,
    hide: Vec<usize>,
}

fn decode_commit(fam: Fam, bytes: &[u8]) -> Option<Arc<CommitNode>> {
    match fam {
        Fam::Core => CommitNode::decode::<_, Core>(BitIter::from(bytes)).ok(),
        Fam::Elements => CommitNode::decode::<_, Elements>(BitIter::from(bytes)).ok(),
    }
}

/// apply one transition; None = not enabled in this state
fn step<'b>(ctx: &types::Context<'b>, env: &Env, rep: Rep<'b>, abs: &mut Abs, t: Tr) -> Option<Rep<'b>> {
    Some(match (rep, t) {
        (Rep::Construct(n), Tr::FinalizeTypes) => Rep::Commit(n.finalize_types().ok()?),
        (Rep::Construct(n), Tr::FinalizeUnpruned) => {
            n.set_arrow_to_program().ok()?;
            Rep::Redeem(n.finalize_unpruned().ok()?)
        }
        (Rep::Commit(n), Tr::CommitFinalize) => Rep::Redeem(n.finalize(&mut SimpleFinalizer::new(std::iter::empty())).ok()?),
        (Rep::Redeem(n), Tr::Unfinalize) => Rep::Commit(n.unfinalize().ok()?),
        (Rep::Commit(n), Tr::UnfinalizeTypes) => Rep::Construct(n.unfinalize_types(ctx).ok()?),
        (Rep::Redeem(n), Tr::ToConstruct) => Rep::Construct(n.to_construct_node(ctx)),
        (Rep::Commit(n), Tr::ToNamed) => Rep::Named(NamedCommitNode::from_node(&n)),
        (Rep::Named(n), Tr::NamedToCommit) => Rep::Commit(n.to_commit_node()),
        (Rep::Named(n), Tr::NamedToConstruct) => {
            Rep::Construct(n.to_construct_node(ctx, &HashMap::new(), &HashMap::new()))
        }
        (Rep::Commit(n), Tr::EncodeDecode) => Rep::Commit(decode_commit(env.fam, &n.to_vec_without_witness())?),
        (Rep::Redeem(n), Tr::EncodeDecode) => {
            let (p, w) = n.to_vec_with_witness();
            Rep::Redeem(crate::props::c01::decode_redeem(env.fam, &p, &w).ok()?)
        }
        // the following rebuild the construct node from the DAG with a changed parameter
        (Rep::Construct(_), Tr::ChangeWitness) => {
            if env.prog.witness_nodes().is_empty() {
                return None;
            }
            abs.wsel += 1;
            Rep::Construct(build_construct(ctx, env, abs.wsel, abs.attached, &abs.hide).ok()?)
        }
        (Rep::Construct(_), Tr::DetachBranches) => {
            if !abs.attached || !env.prog.has(|s| s == Sym::Disc2) {
                return None;
            }
            abs.attached = false;
            Rep::Construct(build_construct(ctx, env, abs.wsel, abs.attached, &abs.hide).ok()?)
        }
        (Rep::Construct(_), Tr::AttachBranches) => {
            if abs.attached || !env.prog.has(|s| s == Sym::Disc2) {
                return None;
            }
            abs.attached = true;
            Rep::Construct(build_construct(ctx, env, abs.wsel, abs.attached, &abs.hide).ok()?)
        }
        (Rep::Construct(_), Tr::HideCaseChild) => {
            // hide the next not-yet-hidden case child (right children first)
            let p = env.prog;
            let cand: Vec<usize> = p.dag.iter().filter(|n| n.sym == Sym::Case).flat_map(|n| [n.r as usize, n.l as usize]).collect();
            let next = cand.into_iter().find(|c| !abs.hide.contains(c) && !p.dag.iter().any(|n| n.sym == Sym::Case && ((n.l as usize == *c && abs.hide.contains(&(n.r as usize))) || (n.r as usize == *c && abs.hide.contains(&(n.l as usize))))))?;
            abs.hide.push(next);
            Rep::Construct(build_construct(ctx, env, abs.wsel, abs.attached, &abs.hide).ok()?)
        }
        _ => return None,
    })
}

fn leg_convert(ctx: &Ctx, out: &mut Out) {
    let leg = "convert";
    let mut m = Merkle::default();
    let depth = ctx.tier.pick(4, 5);
    for fam in [Fam::Core, Fam::Elements] {
        let nmax = ctx.tier.pick(4, 5);
        let alpha = sigma_p(fam);
        for n in 1..=nmax {
            let mut dags: Vec<Dag> = vec![];
            enum_dags(n, &alpha, 3, &mut || ctx.mine(), &mut |d| dags.push(d.to_vec()));
            for dag in &dags {
                let Some(p) = Prog::new(dag, fam) else { continue };
                let label = || p.render();
                if !ctx.begin(leg, &label) {
                    continue;
                }
                out.evaluations += 1;
                let want = ref_cmrs(dag, fam, &mut m);
                let r = guard(|| explore(&p, &want, depth, out));
                match r {
                    Ok(Ok(nstates)) => {
                        if crate::props::c01::nontrivial(&p) {
                            out.nontrivial += 1;
                            out.sample(leg, || (label(), format!("{nstates} canonical states reached by conversion/witness/branch/hiding histories of depth <= {depth}; root CMR equals the re-hashed one in all of them")));
                        }
                    }
                    Ok(Err((c, d))) => out.violation(&c, leg, label(), d),
                    Err(e) => out.violation(&panic_class(&e), leg, label(), e),
                }
                ctx.end();
            }
        }
    }
}

/// C01's confusable siblings (every ordered pair of different one-constructor expressions side by side in one
/// 7-node program) through the conversion graph: the root must survive serialisation and every other conversion
/// although the two siblings differ only in what kind of node they are.
fn leg_confusable(ctx: &Ctx, out: &mut Out) {
    use crate::props::c01::{ex_to_dag, one_constructor_exprs, Ex};
    let leg = "confusable";
    let mut m = Merkle::default();
    let depth = ctx.tier.pick(3, 4);
    for fam in [Fam::Core, Fam::Elements] {
        let exprs = one_constructor_exprs(fam);
        for f in &exprs {
            if !ctx.mine() {
                continue;
            }
            for g in &exprs {
                if f == g {
                    continue;
                }
                let b = |e: Ex| Box::new(e);
                let host = Ex::Bin(Sym::Comp, b(Ex::Leaf(Sym::Witness)), b(Ex::Bin(Sym::Comp, b(Ex::Bin(Sym::Pair, b(f.clone()), b(g.clone()))), b(Ex::Leaf(Sym::Unit)))));
                let dag = ex_to_dag(&host);
                let Some(p) = Prog::new(&dag, fam) else { continue };
                let label = || p.render();
                if !ctx.begin(leg, &label) {
                    continue;
                }
                out.evaluations += 1;
                out.nontrivial += 1;
                let want = ref_cmrs(&dag, fam, &mut m);
                match guard(|| explore(&p, &want, depth, out)) {
                    Ok(Ok(nstates)) => out.sample(leg, || (label(), format!("{nstates} canonical states reached; root CMR equals the re-hashed one in all of them"))),
                    Ok(Err((c, d))) => out.violation(&c, leg, label(), d),
                    Err(e) => out.violation(&panic_class(&e), leg, label(), e),
                }
                ctx.end();
            }
        }
    }
}

/// Breadth-first search over histories; a state is rebuilt by replaying its history on fresh objects.
fn explore(p: &Prog, want: &[H], depth: usize, out: &mut Out) -> Result<usize, (String, String)> {
    let env = Env { prog: p, fam: p.fam };
    let root_want = want[p.dag.len() - 1];
    let want_set: HashSet<[u8; 32]> = want.iter().copied().collect();
    let mut seen: HashSet<(String, Abs)> = HashSet::new();
    let mut frontier: VecDeque<Vec<Tr>> = VecDeque::new();
    frontier.push_back(vec![]);
    while let Some(hist) = frontier.pop_front() {
        // replay
        let res = types::Context::with_context(|ctx| -> Result<Option<(String, Abs)>, (String, String)> {
            let mut abs = Abs { wsel: 0, attached: true, hide: vec![] };
            let mut rep = match build_construct(&ctx, &env, 0, true, &[]) {
                Ok(c) => Rep::Construct(c),
                Err(e) => return Err(("convert:build".into(), e)),
            };
            for t in &hist {
                rep = match step(&ctx, &env, rep, &mut abs, *t) {
                    Some(r) => r,
                    None => return Ok(None),
                };
            }
            out.transitions += 1;
            // invariant
            if rep.root_cmr().to_byte_array() != root_want {
                return Err(("cmr:conversion".into(), format!("after {hist:?} ({}) the root CMR is {}, re-hashed {}", rep.kind(), rep.root_cmr(), crate::reference::bits::hex(&root_want))));
            }
            // every node of the representation carries a CMR of the original DAG (or of a case whose child was hidden: same CMR by construction)
            for c in rep.all_cmrs() {
                if !want_set.contains(&c) {
                    return Err(("cmr:conversion-node".into(), format!("after {hist:?} ({}) a node has CMR {} that no node of the original has", rep.kind(), crate::reference::bits::hex(&c))));
                }
            }
            abs.wsel = 0; // witness content is dropped from the key
            Ok(Some((rep.kind().to_string(), abs)))
        })?;
        let Some(key) = res else { continue };
        if !seen.insert(key) {
            continue;
        }
        out.states += 1;
        if hist.len() < depth {
            for t in ALL_TR {
                let mut h = hist.clone();
                h.push(*t);
                frontier.push_back(h);
            }
        }
    }
    Ok(seen.len())
}

// ---------------------------------------------------------------------------------------------

/// distinct committed structures <=> distinct CMRs, over the whole population (one worker)
fn leg_inject(ctx: &Ctx, out: &mut Out) {
    let leg = "inject";
    if ctx.shard != 0 {
        // count units identically in every worker
        return;
    }
    let fam = Fam::Core;
    let alpha = alphabet(fam);
    let nmax = ctx.tier.pick(4, 5);
    if !ctx.begin(leg, &|| format!("all constructible DAGs with <= {nmax} nodes")) {
        return;
    }
    // committed-structure interning: witness and disconnect branch erased, sharing erased
    let mut intern: HashMap<(String, Vec<usize>), usize> = HashMap::new();
    let mut by_cmr: HashMap<[u8; 32], (usize, String)> = HashMap::new();
    let mut by_struct: HashMap<usize, [u8; 32]> = HashMap::new();
    let mut n_dags = 0u64;
    let mut viol: Vec<(String, String, String)> = vec![];
    for n in 1..=nmax {
        enum_dags(n, &alpha, 99, &mut || true, &mut |dag| {
            let r = types::Context::with_context(|tctx| build(&tctx, dag, fam, &|_| None).ok().map(|b| b.iter().map(|x| x.cmr().to_byte_array()).collect::<Vec<_>>()));
            let Some(cmrs) = r else { return };
            n_dags += 1;
            let mut ids: Vec<usize> = vec![];
            for x in dag.iter() {
                let kids: Vec<usize> = match x.sym {
                    Sym::Disc1 | Sym::Disc2 => vec![ids[x.l as usize]],
                    _ => match x.sym.arity() {
                        0 => vec![],
                        1 => vec![ids[x.l as usize]],
                        _ => vec![ids[x.l as usize], ids[x.r as usize]],
                    },
                };
                let name = match x.sym {
                    Sym::Disc1 | Sym::Disc2 => "disconnect".to_string(),
                    s => format!("{s:?}"),
                };
                let k = intern.len();
                ids.push(*intern.entry((name, kids)).or_insert(k));
            }
            for i in 0..dag.len() {
                match by_cmr.get(&cmrs[i]) {
                    Some((id, other)) if *id != ids[i] => viol.push(("cmr:collision".into(), render(dag, fam), format!("node {i} has the CMR of a different committed structure (in {other})"))),
                    Some(_) => {}
                    None => {
                        by_cmr.insert(cmrs[i], (ids[i], render(dag, fam)));
                    }
                }
                match by_struct.get(&ids[i]) {
                    Some(c) if *c != cmrs[i] => viol.push(("cmr:not-a-function".into(), render(dag, fam), format!("node {i}: same committed structure, different CMR"))),
                    Some(_) => {}
                    None => {
                        by_struct.insert(ids[i], cmrs[i]);
                    }
                }
            }
        });
    }
    for (c, case, d) in viol {
        out.violation(&c, leg, case, d);
    }
    out.evaluations += n_dags;
    out.states += by_cmr.len() as u64;
    out.transitions += n_dags;
    out.count("inject:distinct-cmrs", by_cmr.len() as u64);
    out.count("inject:distinct-structures", by_struct.len() as u64);
    out.sample(leg, || (format!("all constructible DAGs with <= {nmax} nodes"), format!("{} DAGs, {} distinct CMRs, {} distinct committed structures", n_dags, by_cmr.len(), by_struct.len())));
    ctx.end();
}

/// word constants of every width up to 2^9 bits on corner patterns: CMR formula from scratch
fn leg_words(ctx: &Ctx, out: &mut Out) {
    let leg = "words";
    if !ctx.mine() {
        return;
    }
    let mut m = Merkle::default();
    for n in 0..=9usize {
        let len = 1usize << n;
        let pats: Vec<Vec<bool>> = vec![vec![false; len], vec![true; len], (0..len).map(|i| i % 2 == 0).collect(), (0..len).map(|i| i == 0).collect(), (0..len).map(|i| i == len - 1).collect(), (0..len).map(|i| (i * 7 + 3) % 5 < 2).collect()];
        for bits in pats {
            let label = || format!("word n={n} bits={}", crate::reference::bits::bits_str(&bits[..bits.len().min(64)]));
            if !ctx.begin(leg, &label) {
                continue;
            }
            out.evaluations += 1;
            out.states += 1;
            out.transitions += 1;
            out.nontrivial += 1;
            let r = guard(|| {
                let bytes = crate::reference::bits::bits_to_bytes(&bits);
                let mut it = BitIter::from(bytes.as_slice());
                let w = simplicity::Word::from_bits(&mut it, n as u32).map_err(|e| e.to_string())?;
                Ok::<_, String>(Cmr::const_word(&w).to_byte_array())
            });
            match r {
                Ok(Ok(c)) => {
                    let want = m.cmr_word(n, &bits);
                    if c != want {
                        out.violation("cmr:word", leg, label(), format!("library {} reference {}", crate::reference::bits::hex(&c), crate::reference::bits::hex(&want)));
                    } else {
                        out.outcome("word:ok");
                    }
                }
                Ok(Err(e)) => out.violation("cmr:word-build", leg, label(), e),
                Err(p) => out.violation(&panic_class(&p), leg, label(), p),
            }
            ctx.end();
        }
    }
    let _ = (Rc::new(0), RT::unit());
}

/// the commitment root of a real node DAG, re-hashed from scratch (tag, children, word bits, fail
/// entropy, hidden roots; jet roots are atoms)
fn scratch_cmr<N>(root: &simplicity::node::Node<N>, m: &mut Merkle) -> H
where
    N: simplicity::node::Marker,
    for<'a> &'a simplicity::node::Node<N>: simplicity::dag::DagLike,
{
    use simplicity::dag::{DagLike, InternalSharing};
    use simplicity::node::Inner;
    let mut v: Vec<H> = vec![];
    for item in root.post_order_iter::<InternalSharing>() {
        let l = item.left_index.map(|i| v[i]);
        let r = item.right_index.map(|i| v[i]);
        let h = match item.node.inner() {
            Inner::Iden => m.cmr_leaf("iden"),
            Inner::Unit => m.cmr_leaf("unit"),
            Inner::Witness(_) => m.cmr_leaf("witness"),
            Inner::Fail(e) => {
                let mut a = [0u8; 64];
                a.copy_from_slice(e.as_ref());
                m.cmr_fail(&a)
            }
            Inner::Word(w) => {
                let bits: Vec<bool> = w.as_value().iter_padded().collect();
                m.cmr_word(w.n() as usize, &bits)
            }
            Inner::Jet(j) => j.cmr().to_byte_array(),
            Inner::InjL(_) => m.cmr_unary("injl", &l.unwrap()),
            Inner::InjR(_) => m.cmr_unary("injr", &l.unwrap()),
            Inner::Take(_) => m.cmr_unary("take", &l.unwrap()),
            Inner::Drop(_) => m.cmr_unary("drop", &l.unwrap()),
            Inner::AssertL(_, h) => m.cmr_binary("case", &l.unwrap(), &h.to_byte_array()),
            Inner::AssertR(h, _) => m.cmr_binary("case", &h.to_byte_array(), &l.unwrap()),
            Inner::Disconnect(..) => m.cmr_unary("disconnect", &l.unwrap()),
            Inner::Comp(..) => m.cmr_binary("comp", &l.unwrap(), &r.unwrap()),
            Inner::Case(..) => m.cmr_binary("case", &l.unwrap(), &r.unwrap()),
            Inner::Pair(..) => m.cmr_binary("pair", &l.unwrap(), &r.unwrap()),
        };
        v.push(h);
    }
    *v.last().unwrap()
}

/// Policy compilation as a conversion path: Policy::cmr, the committed program, and every satisfied
/// (hidden and pruned) program must all carry the root obtained by re-hashing the committed program's
/// combinator tree from scratch.
fn leg_policies(ctx: &Ctx, out: &mut Out) {
    use crate::props::c16::{keys, lock_envs, policies, Sat, P};
    use simplicity::elements::secp256k1_zkp::{Message, Secp256k1};
    use simplicity::elements::{SchnorrSig, SchnorrSighashType};
    let leg = "policies";
    let ks = keys();
    let mut m = Merkle::default();
    let mut memo: Vec<Vec<P>> = vec![vec![]];
    let specs = lock_envs();
    let built = crate::space::envs::build(&specs[0].1);
    let secp = Secp256k1::new();
    let msg = Message::from_digest(built.env.c_tx_env().sighash_all().to_byte_array());
    let sigs = [0, 1].map(|i| SchnorrSig { sig: secp.sign_schnorr_no_aux_rand(&msg, &ks.k[i]), hash_ty: SchnorrSighashType::All });
    for s in 1..=ctx.tier.pick(3, 4) {
        for chunk in policies(s, &mut memo, &ks).chunks(16) {
            if !ctx.mine() {
                continue;
            }
            for p in chunk {
                let label = || format!("{p}");
                if !ctx.begin(leg, &label) {
                    continue;
                }
                out.evaluations += 1;
                out.states += 1;
                if s > 1 {
                    out.nontrivial += 1;
                }
                let r = guard(|| -> Result<&'static str, (String, String)> {
                    let commit = p.commit();
                    out.transitions += 3;
                    let want = scratch_cmr(commit.as_ref(), &mut m);
                    if commit.cmr().to_byte_array() != want {
                        return Err(("policy:commit-cmr".into(), format!("committed program has CMR {}, re-hashed from scratch {}", commit.cmr(), crate::reference::bits::hex(&want))));
                    }
                    if p.cmr().to_byte_array() != want {
                        return Err(("policy:cmr".into(), format!("Policy::cmr = {}, the compiled program re-hashed from scratch {}", p.cmr(), crate::reference::bits::hex(&want))));
                    }
                    // every subset of the satisfier's data: whatever program comes back carries the same root
                    let mut n = 0;
                    for avail in 0u8..8 {
                        let sat = types::Context::with_context(|tctx| {
                            let mut sat = Sat { ctx: tctx, sigs: HashMap::new(), pre: HashMap::new(), env: &built.env };
                            if avail & 1 != 0 {
                                sat.sigs.insert(ks.pk[0], sigs[0]);
                            }
                            if avail & 2 != 0 {
                                sat.sigs.insert(ks.pk[1], sigs[1]);
                            }
                            if avail & 4 != 0 {
                                sat.pre.insert(ks.image, ks.pre);
                            }
                            p.satisfy(&sat, &built.env)
                        });
                        out.transitions += 1;
                        if let Ok(prog) = sat {
                            n += 1;
                            let again = scratch_cmr(prog.as_ref(), &mut m);
                            if prog.cmr().to_byte_array() != want || again != want {
                                return Err(("policy:satisfied-cmr".into(), format!("satisfied program (data subset {avail:03b}) has CMR {}, re-hashed {}, the policy {}", prog.cmr(), crate::reference::bits::hex(&again), crate::reference::bits::hex(&want))));
                            }
                        }
                    }
                    Ok(if n > 0 { "policy:roots-agree(satisfied)" } else { "policy:roots-agree(never satisfied)" })
                });
                match r {
                    Ok(Ok(o)) => {
                        out.outcome(o);
                        out.sample(leg, || (label(), o.to_string()));
                    }
                    Ok(Err((c, d))) => out.violation(&c, leg, label(), d),
                    Err(e) => out.violation(&panic_class(&e), leg, label(), e),
                }
                ctx.end();
            }
        }
    }
}
