//! C13 - bit streams and natural numbers code exactly.
//!
//! Legs: (nat) naturals round trip with bounds and result types; (strings) every bit string of
//! length L as input to `read_natural`; (writer) every writer op sequence up to a depth against a
//! Vec<bool> model; (reader) explicit-state exploration of the reader over every byte string of a
//! given length, state = full internal state (Debug rendering), invariant + model agreement on
//! every transition; (window) every window over small slices; (collect) collect_bits; (close).

use crate::engine::{guard, panic_class, Ctx, Out, PropDef, Tier};
use crate::reference::bits::*;
use simplicity::{encode_natural, BitCollector, BitIter, BitWriter};
use std::collections::HashSet;
use std::io::Write;

pub static DEF: PropDef = PropDef {
    id: "C13",
    run,
    rule: "states = distinct (byte string, reader internal state) pairs + distinct naturals + distinct writer histories + distinct windows; non-trivial = reader states at a non-byte-aligned position, naturals >= 2, writer histories that end unaligned, windows with start or end unaligned",
    assumptions: &[
        "reader state key is the Debug rendering of BitIter (all four fields incl. the remaining byte iterator)",
        "for naturals in [2^31, 2^32) both the exact value and an error are accepted (statement promises 1..2^31-1)",
    ],
    shards: (16, 64),
    budget_ms: (60_000, 180_000),
};

type SliceIter<'a> = BitIter<std::iter::Copied<std::slice::Iter<'a, u8>>>;

fn run(ctx: &Ctx, out: &mut Out) {
    leg_nat(ctx, out);
    leg_strings(ctx, out);
    leg_chains(ctx, out);
    leg_writer(ctx, out);
    leg_reader(ctx, out);
    leg_window(ctx, out);
    leg_collect(ctx, out);
}

fn enc(n: usize) -> (Vec<u8>, usize) {
    let mut sink = Vec::new();
    let mut w = BitWriter::from(&mut sink);
    let k = encode_natural(n, &mut w).unwrap();
    w.flush_all().unwrap();
    (sink, k)
}

fn nat_domain(tier: Tier) -> Vec<u64> {
    let top: u64 = tier.pick(1 << 16, 1 << 22);
    let around: u64 = tier.pick(64, 1024);
    let mut v: Vec<u64> = (1..=top).collect();
    for k in 1..=32u32 {
        let c = 1u64 << k;
        for d in 0..=around {
            if c > d {
                v.push(c - d);
            }
            v.push(c + d);
        }
    }
    v.retain(|n| *n >= 1 && *n < (1u64 << 32) + around);
    v.sort_unstable();
    v.dedup();
    v
}

fn leg_nat(ctx: &Ctx, out: &mut Out) {
    let leg = "nat";
    let dom = nat_domain(ctx.tier);
    for chunk in dom.chunks(4096) {
        if !ctx.mine() {
            continue;
        }
        for &n in chunk {
            if !ctx.begin(leg, &|| format!("n={n}")) {
                continue;
            }
            out.evaluations += 1;
            out.states += 1;
            if n >= 2 {
                out.nontrivial += 1;
            }
            let r = guard(|| check_nat(n, out));
            match r {
                Ok(None) => out.sample(leg, || (format!("n={n}"), format!("code word {}; all result types and bounds agree", bits_str(&ref_encode_natural(n))))),
                Ok(Some((class, d))) => out.violation(&class, leg, format!("n={n}"), d),
                Err(p) => out.violation(&panic_class(&p), leg, format!("n={n}"), p),
            }
            ctx.end();
        }
    }
}

fn check_nat(n: u64, out: &mut Out) -> Option<(String, String)> {
    let refbits = ref_encode_natural(n);
    // encoder (defined for usize; we are on 64 bit)
    let (bytes, k) = enc(n as usize);
    out.transitions += 1;
    let bits = bytes_to_bits(&bytes);
    if k != refbits.len() || bits[..k.min(bits.len())] != refbits[..] {
        return Some((
            "nat:encode".into(),
            format!("encode_natural gives {} ({} bits), reference {}", bits_str(&bits), k, bits_str(&refbits)),
        ));
    }
    if bits[k..].iter().any(|b| *b) {
        return Some(("nat:encode-padding".into(), "non-zero padding after flush".into()));
    }
    // decode from the reference encoding followed by 1-bits (garbage must not be touched)
    let mut stream = refbits.clone();
    stream.extend([true; 9]);
    let sbytes = bits_to_bytes(&stream);
    macro_rules! dec {
        ($t:ty, $bound:expr, $tyname:expr) => {{
            let mut it = BitIter::from(sbytes.as_slice());
            let bound: Option<$t> = $bound;
            let r = it.read_natural::<$t>(bound);
            out.transitions += 1;
            let fits = <$t>::try_from(n).is_ok();
            let within = match bound {
                Some(b) => fits && <$t>::try_from(n).ok().map(|x| x <= b).unwrap_or(false),
                None => fits,
            };
            match r {
                Ok(v) => {
                    let v = v as i128;
                    if v != n as i128 {
                        return Some((
                            "nat:decode-wrong-value".into(),
                            format!("read_natural::<{}>({:?}) = {} for the encoding of {}", $tyname, bound, v, n),
                        ));
                    }
                    if !within {
                        return Some((
                            "nat:decode-bound".into(),
                            format!("read_natural::<{}>({:?}) accepted {}", $tyname, bound, n),
                        ));
                    }
                    if it.n_total_read() != refbits.len() {
                        return Some((
                            "nat:decode-consumed".into(),
                            format!("consumed {} bits, the code word has {}", it.n_total_read(), refbits.len()),
                        ));
                    }
                    out.outcome("nat:ok");
                }
                Err(e) => {
                    // required to succeed for 1..2^31-1 when it fits type and bound
                    if within && n < (1 << 31) {
                        return Some((
                            "nat:decode-rejects".into(),
                            format!("read_natural::<{}>({:?}) rejected {}: {:?}", $tyname, bound, n, e),
                        ));
                    }
                    out.outcome(if n >= (1 << 31) { "nat:err-large" } else { "nat:err-bound-or-type" });
                }
            }
        }};
    }
    dec!(u32, None, "u32");
    dec!(u64, None, "u64");
    dec!(usize, None, "usize");
    dec!(u16, None, "u16");
    dec!(u8, None, "u8");
    dec!(i32, None, "i32");
    if n < (1u64 << 32) {
        let n32 = n as u32;
        dec!(u32, Some(n32), "u32");
        dec!(u32, Some(n32.wrapping_sub(1)), "u32");
        dec!(u32, n32.checked_add(1), "u32");
        dec!(u32, Some(0), "u32");
        dec!(usize, Some(n as usize), "usize");
        dec!(usize, Some(n as usize - 1), "usize");
        dec!(u64, Some(n + 1), "u64");
    }
    None
}

/// every bit string of `8*len` bits as reader input
fn leg_strings(ctx: &Ctx, out: &mut Out) {
    let leg = "strings";
    let len = ctx.tier.pick(2usize, 3);
    let total: u64 = 1 << (8 * len);
    let chunk = 4096u64;
    let mut base = 0;
    while base < total {
        if ctx.mine() {
            for x in base..(base + chunk).min(total) {
                let bytes: Vec<u8> = (0..len).map(|i| (x >> (8 * (len - 1 - i))) as u8).collect();
                if !ctx.begin(leg, &|| format!("bytes={}", hex(&bytes))) {
                    continue;
                }
                out.evaluations += 1;
                let r = guard(|| check_string(&bytes, out));
                match r {
                    Ok(None) => out.sample(leg, || (format!("bytes={}", hex(&bytes)), format!("read_natural agrees with reference: {:?}", ref_decode_natural(&bytes_to_bits(&bytes), 0)))),
                    Ok(Some((class, d))) => out.violation(&class, leg, format!("bytes={}", hex(&bytes)), d),
                    Err(p) => out.violation(&panic_class(&p), leg, format!("bytes={}", hex(&bytes)), p),
                }
                ctx.end();
            }
        }
        base += chunk;
    }
}

/// Strings generated from the *recursion structure* of the code rather than from raw bytes: k leading ones, a zero,
/// then one mantissa per level, where the number read at level i is the mantissa width of level i+1. Levels whose
/// width is <= 5 take every mantissa, wider ones a corner set (small values, all ones, every 2^j and its neighbours);
/// once a width is >= 64 (the reference rejects) a filler follows. Every chain of widths 1 -> {2,3} -> 4..15 ->
/// 16..65535 -> ... is covered, in particular intermediate lengths of 32 and more with any low bits.
fn chain_strings() -> Vec<Vec<bool>> {
    fn mantissas(w: u32) -> Vec<u128> {
        if w <= 5 {
            return (0..(1u128 << w)).collect();
        }
        let top = 1u128 << w;
        let mut v: Vec<u128> = (0..=33u128).filter(|x| *x < top).collect();
        v.push(top - 1);
        v.push(top - 2);
        for j in 0..w {
            for d in [-1i128, 0, 1] {
                let x = (1i128 << j) + d;
                if x >= 0 && (x as u128) < top {
                    v.push(x as u128);
                }
            }
        }
        v.sort();
        v.dedup();
        v
    }
    fn fillers() -> Vec<Vec<bool>> {
        let n = 96;
        vec![
            vec![false; n],
            vec![true; n],
            (0..n).map(|i| i % 2 == 1).collect(),
            (0..n).map(|i| i % 3 == 1).collect(),
        ]
    }
    fn go(level: usize, k: usize, width: u128, bits: &mut Vec<bool>, out: &mut Vec<Vec<bool>>) {
        if level > k {
            out.push(bits.clone());
            return;
        }
        if width >= 64 {
            for f in fillers() {
                let mut b = bits.clone();
                b.extend(f);
                out.push(b);
            }
            return;
        }
        let w = width as u32;
        for m in mantissas(w) {
            let keep = bits.len();
            for i in (0..w).rev() {
                bits.push((m >> i) & 1 == 1);
            }
            go(level + 1, k, (1u128 << w) + m, bits, out);
            bits.truncate(keep);
        }
    }
    let mut out = vec![];
    for k in 0..=7usize {
        let mut bits = vec![true; k];
        bits.push(false);
        go(1, k, 1, &mut bits, &mut out);
    }
    out
}

fn leg_chains(ctx: &Ctx, out: &mut Out) {
    let leg = "chains";
    let all = chain_strings();
    out.count("chain-strings", all.len() as u64);
    for chunk in all.chunks(512) {
        if !ctx.mine() {
            continue;
        }
        for bits in chunk {
        for pad in [false, true] {
            let mut b = bits.clone();
            while b.len() % 8 != 0 {
                b.push(pad);
            }
            // a follower byte, so that a reader that consumes too much still finds bits
            b.extend(std::iter::repeat(pad).take(8));
            let bytes = bits_to_bytes(&b);
            if !ctx.begin(leg, &|| format!("bytes={}", hex(&bytes))) {
                continue;
            }
            out.evaluations += 1;
            let r = guard(|| check_string(&bytes, out));
            match r {
                Ok(None) => out.sample(leg, || (format!("bytes={}", hex(&bytes)), format!("read_natural agrees with reference: {:?}", ref_decode_natural(&bytes_to_bits(&bytes), 0)))),
                Ok(Some((class, d))) => out.violation(&class, leg, format!("bytes={}", hex(&bytes)), d),
                Err(p) => out.violation(&panic_class(&p), leg, format!("bytes={}", hex(&bytes)), p),
            }
            ctx.end();
        }
        }
    }
}


fn check_string(bytes: &[u8], out: &mut Out) -> Option<(String, String)> {
    let bits = bytes_to_bits(bytes);
    let mut it = BitIter::from(bytes);
    let r = it.read_natural::<u32>(None);
    out.transitions += 1;
    out.states += 1;
    let rf = ref_decode_natural(&bits, 0);
    match (&r, &rf) {
        (Ok(v), RefNat::Ok(n, used)) => {
            if *v as u128 != *n {
                return Some(("strings:wrong-value".into(), format!("lib {v}, reference {n}")));
            }
            if it.n_total_read() != *used {
                return Some(("strings:consumed".into(), format!("lib consumed {}, reference {}", it.n_total_read(), used)));
            }
            // bijection: the canonical encoding of v is exactly the consumed prefix
            let (eb, k) = enc(*v as usize);
            let ebits = bytes_to_bits(&eb);
            if k != *used || ebits[..k] != bits[..k] {
                return Some(("strings:not-bijective".into(), format!("decoded {v} but encode_natural({v}) differs from the consumed prefix")));
            }
            if *n >= 2 {
                out.nontrivial += 1;
            }
            out.outcome("strings:ok");
        }
        (Ok(v), other) => {
            return Some(("strings:accepts-invalid".into(), format!("lib Ok({v}), reference {other:?}")));
        }
        (Err(e), RefNat::Ok(n, _)) => {
            if *n < (1 << 31) {
                return Some(("strings:rejects-valid".into(), format!("lib {e:?}, reference Ok({n})")));
            }
            if *n < (1 << 32) {
                out.outcome("strings:err-31..32bit");
            } else {
                out.outcome("strings:err-too-large");
            }
        }
        (Err(_), RefNat::Eos) => out.outcome("strings:err-eos"),
        (Err(_), RefNat::Huge) => out.outcome("strings:err-huge"),
    }
    None
}

// ---------------------------------------------------------------------------------------------
// writer

#[derive(Clone, Copy, Debug)]
enum WOp {
    Bit(bool),
    BitsBe(u64, usize),
    Byte(u8),
    Flush,
    /// io::Write::flush: flushes the byte sink only, the cached bits stay where they are
    IoFlush,
}

fn writer_alphabet() -> Vec<WOp> {
    let mut v = vec![WOp::Bit(false), WOp::Bit(true)];
    for len in [0usize, 1, 2, 7, 8, 9, 16, 64] {
        for val in [0u64, u64::MAX, 0xa5a5_a5a5_a5a5_a5a5] {
            if len == 0 && val != 0 {
                continue;
            }
            let m = if len == 64 { val } else { val & ((1u64 << len) - 1) };
            v.push(WOp::BitsBe(m, len));
        }
    }
    v.push(WOp::Byte(0xa5));
    v.push(WOp::Byte(0x01));
    v.push(WOp::Flush);
    v.push(WOp::IoFlush);
    v
}

fn leg_writer(ctx: &Ctx, out: &mut Out) {
    let leg = "writer";
    let alpha = writer_alphabet();
    let depth = ctx.tier.pick(3, 4);
    // simple two-level sharding: first op (or empty) decides the unit
    let mut seqs: Vec<Vec<WOp>> = vec![vec![]];
    let mut frontier: Vec<Vec<WOp>> = vec![vec![]];
    for _ in 0..depth {
        let mut next = vec![];
        for s in &frontier {
            for op in &alpha {
                let mut t = s.clone();
                t.push(*op);
                next.push(t);
            }
        }
        seqs.extend(next.iter().cloned());
        frontier = next;
    }
    for chunk in seqs.chunks(512) {
        if !ctx.mine() {
            continue;
        }
        for ops in chunk {
            if !ctx.begin(leg, &|| format!("{ops:?}")) {
                continue;
            }
            out.evaluations += 1;
            out.states += 1;
            let r = guard(|| check_writer(ops, out));
            match r {
                Ok(None) => out.sample(leg, || (format!("{ops:?}"), "bytes, counters and read-back equal the Vec<bool> model".into())),
                Ok(Some((class, d))) => out.violation(&class, leg, format!("{ops:?}"), d),
                Err(p) => out.violation(&panic_class(&p), leg, format!("{ops:?}"), p),
            }
            ctx.end();
        }
    }
}

fn check_writer(ops: &[WOp], out: &mut Out) -> Option<(String, String)> {
    let mut sink: Vec<u8> = vec![];
    let mut model: Vec<bool> = vec![];
    let mut written = 0usize;
    {
        let mut w = BitWriter::new(&mut sink);
        for op in ops {
            out.transitions += 1;
            match *op {
                WOp::Bit(b) => {
                    w.write_bit(b).unwrap();
                    model.push(b);
                    written += 1;
                }
                WOp::BitsBe(v, len) => {
                    let n = w.write_bits_be(v, len).unwrap();
                    if n != len {
                        return Some(("writer:return".into(), format!("write_bits_be returned {n} for len {len}")));
                    }
                    for i in (0..len).rev() {
                        model.push(v >> i & 1 == 1);
                    }
                    written += len;
                }
                WOp::Byte(b) => {
                    let n = w.write(&[b]).unwrap();
                    if n != 1 {
                        return Some(("writer:return".into(), format!("write returned {n}")));
                    }
                    for i in (0..8).rev() {
                        model.push(b >> i & 1 == 1);
                    }
                    written += 8;
                }
                WOp::Flush => {
                    w.flush_all().unwrap();
                    while model.len() % 8 != 0 {
                        model.push(false);
                    }
                }
                WOp::IoFlush => {
                    std::io::Write::flush(&mut w).unwrap();
                }
            }
            if w.n_total_written() != written {
                return Some(("writer:counter".into(), format!("n_total_written {} after {} bits", w.n_total_written(), written)));
            }
        }
        w.flush_all().unwrap();
    }
    if model.len() % 8 != 0 {
        out.nontrivial += 1;
    }
    let expect = bits_to_bytes(&model);
    if sink != expect {
        return Some(("writer:bytes".into(), format!("sink {} expected {}", hex(&sink), hex(&expect))));
    }
    // the same history through the write_to_vec helper
    let via_helper = simplicity::write_to_vec(|w| {
        let mut n = 0;
        for op in ops {
            match *op {
                WOp::Bit(b) => {
                    w.write_bit(b)?;
                    n += 1;
                }
                WOp::BitsBe(v, len) => n += w.write_bits_be(v, len)?,
                WOp::Byte(b) => n += 8 * w.write(&[b])?,
                WOp::Flush => w.flush_all()?,
                WOp::IoFlush => std::io::Write::flush(w)?,
            }
        }
        Ok(n)
    });
    if via_helper != expect {
        return Some(("writer:write_to_vec".into(), format!("write_to_vec gives {} expected {}", hex(&via_helper), hex(&expect))));
    }
    // read everything back through the reader
    let back: Vec<bool> = BitIter::from(sink.as_slice()).collect();
    if back[..model.len()] != model[..] {
        return Some(("writer:readback".into(), "reader returns different bits".into()));
    }
    out.outcome("writer:ok");
    None
}

// ---------------------------------------------------------------------------------------------
// reader: explicit-state exploration

const ROPS: &[&str] = &["next", "read_bit", "read_u2", "read_u8", "read_natural", "read_natural_b3", "read_cmr", "read_fail_entropy", "close"];

fn leg_reader(ctx: &Ctx, out: &mut Out) {
    let leg = "reader";
    let len = ctx.tier.pick(2usize, 3);
    let total: u64 = 1 << (8 * len);
    let chunk = 1024u64;
    let mut base = 0;
    while base < total {
        if ctx.mine() {
            for x in base..(base + chunk).min(total) {
                let bytes: Vec<u8> = (0..len).map(|i| (x >> (8 * (len - 1 - i))) as u8).collect();
                if !ctx.begin(leg, &|| format!("bytes={}", hex(&bytes))) {
                    continue;
                }
                out.evaluations += 1;
                let s0 = out.states;
                let r = guard(|| explore_reader(&bytes, 0, bytes.len() * 8, out));
                match r {
                    Ok(None) => {
                        let ns = out.states - s0;
                        out.sample(leg, || (format!("bytes={}", hex(&bytes)), format!("{ns} reachable reader states, 9 ops from each, invariant and model hold")))
                    }
                    Ok(Some((class, d))) => out.violation(&class, leg, format!("bytes={}", hex(&bytes)), d),
                    Err(p) => out.violation(&panic_class(&p), leg, format!("bytes={}", hex(&bytes)), p),
                }
                ctx.end();
            }
        }
        base += chunk;
    }
    // shorter streams as well (0 and 1 byte), cheap
    if ctx.mine() {
        for l in 0..len {
            for x in 0..(1u64 << (8 * l)) {
                let bytes: Vec<u8> = (0..l).map(|i| (x >> (8 * (l - 1 - i))) as u8).collect();
                if !ctx.begin(leg, &|| format!("bytes={}", hex(&bytes))) {
                    continue;
                }
                out.evaluations += 1;
                match guard(|| explore_reader(&bytes, 0, bytes.len() * 8, out)) {
                    Ok(None) => {}
                    Ok(Some((class, d))) => out.violation(&class, leg, format!("bytes={}", hex(&bytes)), d),
                    Err(p) => out.violation(&panic_class(&p), leg, format!("bytes={}", hex(&bytes)), p),
                }
                ctx.end();
            }
        }
    }
}

/// Invariant evaluated in every reachable reader state: position == n_total_read, the next bit
/// is the model's bit at that position, size_hint is the exact remaining length.
fn reader_invariant(it: &SliceIter, bits: &[bool], start: usize, end: usize) -> Option<String> {
    let pos = start + it.n_total_read();
    if pos > end {
        return Some(format!("n_total_read {} runs past the end {}", it.n_total_read(), end - start));
    }
    let mut c = it.clone();
    let nb = c.next();
    let want = if pos < end { Some(bits[pos]) } else { None };
    if nb != want {
        return Some(format!("at position {pos}: next() = {nb:?}, stream has {want:?}"));
    }
    let (lo, hi) = it.size_hint();
    if lo != end - pos || hi != Some(end - pos) {
        return Some(format!("at position {pos}: size_hint ({lo},{hi:?}), remaining {}", end - pos));
    }
    None
}

fn explore_reader(bytes: &[u8], start: usize, end: usize, out: &mut Out) -> Option<(String, String)> {
    let bits = bytes_to_bits(bytes);
    let init: SliceIter = if start == 0 && end == bytes.len() * 8 {
        BitIter::from(bytes)
    } else {
        BitIter::byte_slice_window(bytes, start, end)
    };
    let mut seen: HashSet<String> = HashSet::new();
    let mut stack: Vec<(SliceIter, String)> = vec![(init, String::new())];
    while let Some((it, hist)) = stack.pop() {
        let key = format!("{it:?}");
        if !seen.insert(key) {
            continue;
        }
        out.states += 1;
        let pos = start + it.n_total_read();
        if pos % 8 != 0 {
            out.nontrivial += 1;
        }
        if let Some(e) = reader_invariant(&it, &bits, start, end) {
            return Some(("reader:invariant".into(), format!("after [{hist}]: {e}")));
        }
        let rem = end - pos;
        for op in ROPS {
            out.transitions += 1;
            let mut c = it.clone();
            let h2 = if hist.is_empty() { op.to_string() } else { format!("{hist},{op}") };
            let bad = |what: String| Some(("reader:model".to_string(), format!("after [{h2}]: {what}")));
            match *op {
                "next" => {
                    let r = c.next();
                    let want = if rem > 0 { Some(bits[pos]) } else { None };
                    if r != want {
                        return bad(format!("next() = {r:?}, model {want:?}"));
                    }
                    if c.n_total_read() != it.n_total_read() + usize::from(rem > 0) {
                        return bad("position after next()".into());
                    }
                }
                "read_bit" => {
                    let r = c.read_bit().ok();
                    let want = if rem > 0 { Some(bits[pos]) } else { None };
                    if r != want {
                        return bad(format!("read_bit() = {r:?}, model {want:?}"));
                    }
                }
                "read_u2" => {
                    let r = c.read_u2().ok().map(u8::from);
                    let want = if rem >= 2 { Some(2 * bits[pos] as u8 + bits[pos + 1] as u8) } else { None };
                    if r != want {
                        return bad(format!("read_u2() = {r:?}, model {want:?}"));
                    }
                    if c.n_total_read() != it.n_total_read() + rem.min(2) {
                        return bad("position after read_u2()".into());
                    }
                }
                "read_u8" => {
                    let r = c.read_u8().ok();
                    let want = if rem >= 8 {
                        Some((0..8).fold(0u8, |a, i| 2 * a + bits[pos + i] as u8))
                    } else {
                        None
                    };
                    if r != want {
                        return bad(format!("read_u8() = {r:?}, model {want:?}"));
                    }
                    let adv = if rem >= 8 { 8 } else { 0 };
                    if c.n_total_read() != it.n_total_read() + adv {
                        return bad(format!("position after read_u8(): advanced {}", c.n_total_read() - it.n_total_read()));
                    }
                }
                "read_natural" | "read_natural_b3" => {
                    let bound = if *op == "read_natural" { None } else { Some(3u32) };
                    let r = c.read_natural::<u32>(bound);
                    let rf = ref_decode_natural(&bits[..end], pos);
                    match (&r, &rf) {
                        (Ok(v), RefNat::Ok(n, used)) => {
                            if *v as u128 != *n || bound.map(|b| *v > b).unwrap_or(false) {
                                return bad(format!("{op} = {v}, model {n}"));
                            }
                            if c.n_total_read() != it.n_total_read() + used {
                                return bad(format!("{op} consumed {} bits, model {used}", c.n_total_read() - it.n_total_read()));
                            }
                        }
                        (Ok(v), o) => return bad(format!("{op} = Ok({v}), model {o:?}")),
                        (Err(e), RefNat::Ok(n, _)) => {
                            let allowed = *n >= (1 << 31) || bound.map(|b| *n > b as u128).unwrap_or(false);
                            if !allowed {
                                return bad(format!("{op} = {e:?}, model Ok({n})"));
                            }
                        }
                        (Err(_), _) => {}
                    }
                }
                "read_cmr" | "read_fail_entropy" => {
                    let need = if *op == "read_cmr" { 256 } else { 512 };
                    let ok = if *op == "read_cmr" { c.read_cmr().is_ok() } else { c.read_fail_entropy().is_ok() };
                    if ok != (rem >= need) {
                        return bad(format!("{op} ok={ok} with {rem} bits left"));
                    }
                    let adv = if rem >= need { need } else { 8 * (rem / 8) };
                    if c.n_total_read() != it.n_total_read() + adv {
                        return bad(format!("{op} advanced {} bits, model {adv}", c.n_total_read() - it.n_total_read()));
                    }
                }
                "close" => {
                    let r = c.clone().close();
                    let want_ok = rem < 8 && bits[pos..end].iter().all(|b| !*b);
                    if r.is_ok() != want_ok {
                        return bad(format!("close() = {r:?} with remaining bits {}", bits_str(&bits[pos..end])));
                    }
                    out.outcome(if want_ok { "close:ok" } else if rem >= 8 { "close:trailing" } else { "close:padding" });
                    continue;
                }
                _ => unreachable!(),
            }
            stack.push((c, h2));
        }
    }
    None
}

// ---------------------------------------------------------------------------------------------
// windows

fn leg_window(ctx: &Ctx, out: &mut Out) {
    let leg = "window";
    let alphabet = [0x00u8, 0xff, 0xa5, 0x5a];
    let maxlen = 3usize;
    for len in 0..=maxlen {
        for x in 0..(4usize.pow(len as u32)) {
            if !ctx.mine() {
                continue;
            }
            let bytes: Vec<u8> = (0..len).map(|i| alphabet[(x / 4usize.pow(i as u32)) % 4]).collect();
            let bits = bytes_to_bits(&bytes);
            for start in 0..=8 * len {
                for end in start..=8 * len {
                    let label = || format!("bytes={} start={start} end={end}", hex(&bytes));
                    if !ctx.begin(leg, &label) {
                        continue;
                    }
                    out.evaluations += 1;
                    out.states += 1;
                    if start % 8 != 0 || end % 8 != 0 {
                        out.nontrivial += 1;
                    }
                    let r = guard(|| {
                        let it = BitIter::byte_slice_window(&bytes, start, end);
                        let got: Vec<bool> = it.collect();
                        got
                    });
                    out.transitions += 1;
                    match r {
                        Ok(got) => {
                            if got != bits[start..end] {
                                let class = if end % 8 != 0 && got.len() >= end - start && got[..end - start] == bits[start..end] {
                                    "window:end-unaligned-overrun"
                                } else {
                                    "window:wrong-bits"
                                };
                                out.violation(class, leg, label(), format!("yields {} bits {}, the range holds {} bits {}", got.len(), bits_str(&got), end - start, bits_str(&bits[start..end])));
                            } else {
                                out.outcome("window:ok");
                                // full reader exploration from aligned-end windows (where the window is exact)
                                if ctx.tier == Tier::Thorough || len <= 2 {
                                    match guard(|| explore_reader(&bytes, start, end, out)) {
                                        Ok(None) => {}
                                        Ok(Some((class, d))) => out.violation(&format!("window-{class}"), leg, label(), d),
                                        Err(p) => out.violation(&panic_class(&p), leg, label(), p),
                                    }
                                }
                            }
                        }
                        Err(p) => out.violation(&panic_class(&p), leg, label(), p),
                    }
                    ctx.end();
                }
            }
        }
    }
}

fn leg_collect(ctx: &Ctx, out: &mut Out) {
    let leg = "collect";
    let maxbits = ctx.tier.pick(12usize, 18);
    for n in 0..=maxbits {
        if !ctx.mine() {
            continue;
        }
        for x in 0..(1u64 << n) {
            let bits: Vec<bool> = (0..n).map(|i| x >> (n - 1 - i) & 1 == 1).collect();
            if !ctx.begin(leg, &|| bits_str(&bits)) {
                continue;
            }
            out.evaluations += 1;
            out.states += 1;
            out.transitions += 1;
            if n % 8 != 0 {
                out.nontrivial += 1;
            }
            let r = guard(|| {
                let (bytes, k) = bits.iter().copied().collect_bits();
                let t = bits.iter().copied().try_collect_bytes();
                (bytes, k, t)
            });
            match r {
                Ok((bytes, k, t)) => {
                    if k != n || bytes != bits_to_bytes(&bits) {
                        out.violation("collect:wrong", leg, bits_str(&bits), format!("collect_bits = ({}, {k})", hex(&bytes)));
                    } else if t.is_ok() != (n % 8 == 0) || t.as_ref().ok().map(|b| *b != bytes).unwrap_or(false) {
                        out.violation("collect:try", leg, bits_str(&bits), format!("try_collect_bytes = {t:?}"));
                    } else {
                        out.outcome("collect:ok");
                    }
                }
                Err(p) => out.violation(&panic_class(&p), leg, bits_str(&bits), p),
            }
            ctx.end();
        }
    }
}
