//! C20 - results are independent of threads and scheduling.
//! Controlled scheduler over real OS threads; all schedules with <= k preemptions of every pair
//! (and some triples) of library workloads; oracle: each thread's result fingerprint equals the
//! sequential one, no panic, no deadlock, no leak of the shared program.

use crate::engine::sched::{explore, run_schedule, Body, RunResult};
use crate::engine::{Ctx, Out, PropDef, Tier};
use crate::reference::eval::{Term, Tm};
use crate::reference::tyval::*;
use crate::space::dag::*;
use crate::space::terms::Builder;
use simplicity::jet::{Core, CoreEnv};
use simplicity::node::{CoreConstructible, WitnessConstructible};
use simplicity::{types, BitIter, BitMachine, RedeemNode, Value};
use std::rc::Rc;
use std::sync::{Arc, Mutex, Weak};

pub static DEF: PropDef = PropDef {
    id: "C20",
    run,
    rule: "states = distinct schedules (complete executions under the controlled scheduler); transitions = scheduling points passed; non-trivial = schedules with at least one preemption (a switch away from a thread that could have continued)",
    assumptions: &[
        "control changes hands only at the H2 scheduling points (context lock, fresh variable name, precomputed-type access, node / incomplete-type drop loop, Bit Machine step, before and after each C jet call), at thread start and at thread end; context-lock, name and precomputed points are thinned to every 8th per thread to keep the schedule space finite",
        "2 threads (3 for the triples) on real OS threads: thread-local type tables, Arc reference counts, the C allocator shims and the C jets are the real ones; preemptions inside C code and weak-memory effects are not explored",
        "every tenth schedule is replayed in full and must reproduce the identical trace (determinism audit)",
        "complement 1 (leg c-races, timing-independent but only for executed paths): 2 unmanaged threads run every Elements jet on its corner inputs under valgrind/helgrind; only reports with a libsimplicity C frame count, because Rust's futex-based locks are invisible to helgrind",
        "complement 2 (leg cold-start) is SAMPLED, not exhaustive: a fresh process per trial, 8 unmanaged threads behind a spin barrier before each first use of lazily built tables; its trials are counted in evaluations/transitions only, never in states; a difference from the single-threaded fresh process is a true violation, silence is weak evidence",
    ],
    shards: (64, 128),
    budget_ms: (300_000, 900_000),
};

/// A redeem program with C jets, a case driven by a witness bit and 8-bit witnesses:
/// comp (pair (sel b) (comp (comp (pair w1 w2) add_8) unit')) unit
fn shared_program() -> Arc<RedeemNode> {
    let one = RT::unit();
    let b8 = RT::word(3);
    let b16 = RT::word(4);
    let w1 = Term::new(Tm::Witness(RV::word(3, 200)), &one, &b8);
    let w2 = Term::new(Tm::Witness(RV::word(3, 100)), &one, &b8);
    let pr = Term::new(Tm::Pair(w1, w2), &one, &b16);
    let sum_t = RT::prod(&RT::bit(), &b8);
    let add = Term::new(Tm::Jet("add_8"), &b16, &sum_t);
    let c1 = Term::new(Tm::Comp(pr, add), &one, &sum_t);
    let u = Term::new(Tm::Unit, &sum_t, &one);
    let arith = Term::new(Tm::Comp(c1, u), &one, &one);
    // selector: comp (pair (witness 1) unit) (case (take verify-ish unit) unit)
    let bit = RT::bit();
    let wb = Term::new(Tm::Witness(RV::bit(true)), &one, &bit);
    let uu = Term::new(Tm::Unit, &one, &one);
    let b1 = RT::prod(&bit, &one);
    let prb = Term::new(Tm::Pair(wb, uu), &one, &b1);
    let o1 = RT::prod(&one, &one);
    let x = Term::new(Tm::Unit, &o1, &one);
    let y = Term::new(Tm::Drop(Term::new(Tm::Iden, &one, &one)), &o1, &one);
    let cs = Term::new(Tm::Case(x, y), &b1, &one);
    let sel = Term::new(Tm::Comp(prb, cs), &one, &one);
    let both = Term::new(Tm::Pair(sel, arith), &one, &o1);
    let fin = Term::new(Tm::Unit, &o1, &one);
    let root = Term::new(Tm::Comp(both, fin), &one, &one);
    Builder::new().redeem(&root).expect("shared program builds")
}

fn fp_redeem(p: &RedeemNode) -> String {
    format!("cmr={} ihr={} amr={} cost={}", p.cmr(), p.ihr(), p.amr(), p.bounds().cost)
}

struct Shared {
    /// the owner's reference
    prog: Mutex<Option<Arc<RedeemNode>>>,
    /// one pre-cloned reference per thread slot, taken by the body when it starts
    handles: Vec<Mutex<Option<Arc<RedeemNode>>>>,
    bytes: (Vec<u8>, Vec<u8>),
    value: Value,
    value2: Value,
}

fn bodies(sh: &Arc<Shared>, slot: usize) -> Vec<(&'static str, Body)> {
    let mut v: Vec<(&'static str, Body)> = vec![];
    // B1 decode the shared bytes
    let s = sh.clone();
    v.push(("decode", Arc::new(move || match RedeemNode::decode::<_, _, Core>(BitIter::from(s.bytes.0.as_slice()), BitIter::from(s.bytes.1.as_slice())) {
        Ok(p) => fp_redeem(&p),
        Err(e) => format!("decode error kind {:?}", std::mem::discriminant(&e)),
    })));
    // B2 construct + finalize in an own context (well typed) and an ill-typed one
    v.push(("construct", Arc::new(move || {
        types::Context::with_context(|ctx| {
            let u = CNode::unit(&ctx);
            let w = CNode::witness(&ctx, Some(Value::u8(7)));
            let j = CNode::jet(&ctx, &Core::Complement8);
            let c = CNode::comp(&CNode::comp(&w, &j).unwrap(), &u).unwrap();
            let ok = c.finalize_unpruned().map(|p| fp_redeem(&p)).unwrap_or_else(|e| format!("err {e}"));
            // occurs-check failure in the same thread, other context
            let bad = types::Context::with_context(|c2| {
                let i = CNode::iden(&c2);
                let p = CNode::pair(&i, &i).unwrap();
                CNode::comp(&p, &CNode::take(&i)).and_then(|n| CNode::comp(&n, &n)).and_then(|n| n.finalize_types()).is_ok()
            });
            format!("{ok} illtyped-accepted={bad}")
        })
    })));
    // B3 execute the shared program on an own machine
    let s = sh.clone();
    v.push(("exec", Arc::new(move || {
        let p = s.handles[slot].lock().unwrap().take().expect("handle");
        let mut mac = BitMachine::for_program(&p).unwrap();
        let r = mac.exec(&p, &CoreEnv::new());
        format!("{:?}", r.map(|v| v.iter_compact().collect::<Vec<bool>>()).map_err(|e| e.to_string()))
    })));
    // B4 prune the shared program
    let s = sh.clone();
    v.push(("prune", Arc::new(move || {
        let p = s.handles[slot].lock().unwrap().take().expect("handle");
        match p.prune(&CoreEnv::new()) {
            Ok(q) => fp_redeem(&q),
            Err(e) => format!("prune error {e}"),
        }
    })));
    // B5 clone the shared program and drop the clone: the last reference may die in any thread
    let s = sh.clone();
    v.push(("clone-drop", Arc::new(move || {
        let p = s.handles[slot].lock().unwrap().take().expect("handle");
        let n = simplicity::dag::DagLike::post_order_iter::<simplicity::dag::InternalSharing>(p.as_ref()).count();
        drop(p);
        format!("nodes={n}")
    })));
    // B6 take and drop the owner's reference (so that the real last drop happens inside a managed thread)
    let s = sh.clone();
    v.push(("take-owner-drop", Arc::new(move || {
        let p = s.prog.lock().unwrap().take();
        let had = p.is_some();
        drop(p);
        format!("had={had}")
    })));
    // B7 compare / prune / hash a shared value
    let s = sh.clone();
    v.push(("value", Arc::new(move || {
        let eq = s.value == s.value2;
        let pr = s.value.prune(&simplicity::types::Final::unit()).is_some();
        let (a, _) = s.value.as_product().unwrap();
        format!("eq={eq} prune={pr} left={:?}", a.to_value().iter_compact().collect::<Vec<bool>>())
    })));
    v
}

fn new_shared() -> (Arc<Shared>, Weak<RedeemNode>) {
    let prog = shared_program();
    let weak = Arc::downgrade(&prog);
    let bytes = prog.to_vec_with_witness();
    let value = Value::product(Value::u8(0xa5), Value::u1(1));
    let value2 = {
        let big = Value::product(Value::u1(1), Value::product(Value::u8(0xa5), Value::u1(1)));
        let (_, r) = big.as_product().unwrap();
        r.to_value()
    };
    let handles = (0..3).map(|_| Mutex::new(Some(prog.clone()))).collect();
    (Arc::new(Shared { prog: Mutex::new(Some(prog)), handles, bytes, value, value2 }), weak)
}

fn run(ctx: &Ctx, out: &mut Out) {
    leg_c_races(ctx, out);
    leg_cold_start(ctx, out);
    let bound: usize = ctx.tier.pick(2, 3);
    let stride = 8;
    let horizon = 100_000;
    let names: Vec<&'static str> = bodies(&new_shared().0, 0).iter().map(|b| b.0).collect();
    let nb = names.len();
    // sequential reference fingerprints: each body alone, unmanaged
    let reference: Vec<String> = (0..nb)
        .map(|i| {
            let (sh, _) = new_shared();
            let b = bodies(&sh, 0);
            (b[i].1)()
        })
        .collect();
    let mut combos: Vec<Vec<usize>> = vec![];
    for i in 0..nb {
        for j in i..nb {
            // ordered pairs: the thread listed first starts (the explorer does not vary the first choice of a pair)
            combos.push(vec![i, j]);
            if i != j {
                combos.push(vec![j, i]);
            }
        }
    }
    // triples containing the drop bodies
    let dropper = names.iter().position(|n| *n == "take-owner-drop").unwrap();
    let cloner = names.iter().position(|n| *n == "clone-drop").unwrap();
    for k in 0..nb {
        combos.push(vec![cloner, dropper, k]);
    }
    let nslices = 16;
    let combos: Vec<(Vec<usize>, usize)> = combos.into_iter().flat_map(|c| (0..nslices).map(move |k| (c.clone(), k))).collect();
    for (combo, slice) in combos {
        if !ctx.mine() {
            continue;
        }
        let is_triple = combo.len() == 3;
        let b = if is_triple { bound.saturating_sub(1).max(1) } else { bound };
        let label = || format!("threads[{}] preemptions<={b} slice {slice}/{nslices}", combo.iter().map(|i| names[*i]).collect::<Vec<_>>().join(" | "));
        if !ctx.begin("schedules", &label) {
            continue;
        }
        out.evaluations += 1;
        let mut first_bad: Option<(String, String)> = None;
        let mut outcomes: std::collections::BTreeSet<String> = Default::default();
        let max_sched = ctx.tier.pick(20_000, 400_000);
        // every schedule gets a fresh shared program (dropped inside the run)
        let combo2 = combo.clone();
        let reference2 = reference.clone();
        let mut check = |r: &RunResult, choices: &[usize]| -> bool {
            let sched = || format!("choices={:?}", choices);
            if let Some(e) = &r.error {
                first_bad = Some((if e.contains("nondeterminism") { "sched:nondeterministic-replay".into() } else if e.contains("livelock") { "sched:deadlock".into() } else { "sched:error".into() }, format!("{e}; {}", sched())));
                return false;
            }
            for (k, res) in r.results.iter().enumerate() {
                match res {
                    Err(p) => {
                        first_bad = Some(("thread:panic".into(), format!("thread {k} ({}) panicked: {p}; {}", names[combo2[k]], sched())));
                        return false;
                    }
                    Ok(fp) => {
                        let want = &reference2[combo2[k]];
                        // "take-owner-drop" may find the owner already taken when it runs twice
                        let ok = fp == want || (names[combo2[k]] == "take-owner-drop" && fp == "had=false");
                        if !ok {
                            first_bad = Some((format!("result:differs:{}", names[combo2[k]]), format!("thread {k} ({}) returns `{fp}`, sequentially `{want}`; {}", names[combo2[k]], sched())));
                            return false;
                        }
                    }
                }
            }
            outcomes.insert(r.trace.iter().map(|p| p.thread.min(9).to_string()).collect::<String>());
            true
        };
        // explore: a fresh Shared per schedule is created inside the body factory
        let mut completed_bound: i64 = -1;
        let ex = {
            // bodies close over a cell that is refreshed before each run
            let cell: Arc<Mutex<Arc<Shared>>> = Arc::new(Mutex::new(new_shared().0));
            let mk: Vec<Body> = combo
                .iter()
                .enumerate()
                .map(|(slot, &i)| {
                    let cell = cell.clone();
                    let body: Body = Arc::new(move || {
                        let sh = cell.lock().unwrap().clone();
                        let b = bodies(&sh, slot);
                        let r = (b[i].1)();
                        // release this thread's handle if the body did not use it
                        drop(sh.handles[slot].lock().unwrap().take());
                        r
                    });
                    body
                })
                .collect();
            let cell2 = cell.clone();
            let leak: std::cell::RefCell<Option<String>> = std::cell::RefCell::new(None);
            let weak_cell: std::cell::RefCell<Option<Weak<RedeemNode>>> = std::cell::RefCell::new(None);
            // before every run (also the audit replays): check that the previous run's program is
            // gone once its owner cell is dropped, then install a fresh one
            let mut before = || {
                let (fresh, w) = new_shared();
                let old = std::mem::replace(&mut *cell2.lock().unwrap(), fresh);
                let oldw = weak_cell.replace(Some(w));
                drop(old);
                if let Some(w) = oldw {
                    if w.upgrade().is_some() && leak.borrow().is_none() {
                        *leak.borrow_mut() = Some("the shared program of the previous schedule is still alive after every thread finished and the owner dropped it".to_string());
                    }
                }
            };
            let mut wrapped = |r: &RunResult, choices: &[usize]| -> bool {
                if leak.borrow().is_some() {
                    return false;
                }
                check(r, choices)
            };
            // a wall-clock cap per case, well inside the watchdog's: a case that reaches it is reported as capped
            let deadline = std::time::Instant::now() + std::time::Duration::from_secs(ctx.tier.pick(100, 300));
            // iterative bounding: everything with 0 preemptions, then with <= 1, ... so that a case that runs
            // into its cap still has a completed bound to report (each level contains the previous ones)
            let mut ex = explore(&mk, 0, stride, horizon, max_sched, deadline, (slice, nslices), !is_triple, &mut before, &mut wrapped);
            for bb in 1..=b {
                if ex.capped {
                    break;
                }
                completed_bound = bb as i64 - 1;
                ex = explore(&mk, bb, stride, horizon, max_sched, deadline, (slice, nslices), !is_triple, &mut before, &mut wrapped);
            }
            if !ex.capped {
                completed_bound = b as i64;
            }
            let leak = leak.into_inner();
            if let Some(l) = leak {
                first_bad = Some(("leak:shared-program".into(), l));
            }
            ex
        };
        out.states += ex.schedules;
        out.transitions += ex.points;
        out.nontrivial += ex.with_preemption;
        out.max("points-per-schedule", ex.max_points as u64);
        out.count("replays-checked", ex.replays_checked);
        out.count("distinct-interleavings", ex.distinct_interleavings.len() as u64);
        if ex.capped && first_bad.is_none() {
            out.cap(format!("{}: bound {b} not completed (stopped after {} schedules; cap: {max_sched} schedules or {} s per case); completed: all schedules with <= {completed_bound} preemptions", label(), ex.schedules, ctx.tier.pick(100, 300)));
        }
        match first_bad {
            None => {
                out.outcome("schedules-agree-with-sequential");
                out.sample("schedules", || (label(), format!("{} schedules ({} with a preemption, {} distinct interleavings, up to {} points each), all results equal the sequential ones", ex.schedules, ex.with_preemption, ex.distinct_interleavings.len(), ex.max_points)));
            }
            Some((c, d)) => out.violation(&c, "schedules", label(), d),
        }
        ctx.end();
    }
    let _ = (run_schedule as fn(&[Body], &[usize], usize, usize) -> RunResult, Tier::Quick, Rc::new(0));
}

// ---------------------------------------------------------------------------------------------
// Free-running pass under a happens-before race detector.
//
// The controlled scheduler only hands control over at the H2 points, so memory shared by code
// *between* two points (in particular inside a C jet) is invisible to it. This pass runs the same
// kind of bodies on two unmanaged threads under valgrind's helgrind, whose verdict does not depend
// on timing: two accesses to one location from different threads, at least one a write, with no
// happens-before edge between them, are reported however the threads happened to be scheduled.
// Only reports whose stacks are inside libsimplicity's C code count (Rust's futex-based locks are
// not understood by helgrind, so reports in Rust frames are not evidence of anything).

/// `comp witness jet` for every Elements-family jet (which includes the core jets), on every corner input
fn race_programs(part: usize, parts: usize) -> Vec<(String, Arc<RedeemNode>)> {
    use crate::reference::unify::{infer, Infer};
    use crate::space::programs::Prog;
    let fam = Fam::Elements;
    let mut v = vec![];
    for j in 0..fam.n_jets() as u16 {
        if j as usize % parts != part {
            continue;
        }
        let dag: Dag = vec![Node { sym: Sym::Witness, l: 0, r: 0 }, Node { sym: Sym::Jet(j), l: 0, r: 0 }, Node { sym: Sym::Comp, l: 0, r: 1 }];
        let arrows = match infer(&dag, fam, false) {
            Infer::Ok(a) => a,
            Infer::Err(..) => continue,
        };
        let p = Prog { dag: dag.clone(), fam, arrows };
        let (assignments, _) = p.witness_assignments(6, 64);
        let n = assignments.len();
        for (k, wit) in assignments.iter().enumerate() {
            let _ = n;
            let r = types::Context::with_context(|tctx| {
                let built = build(&tctx, &dag, fam, &|i| wit[i].as_ref().map(|v| v.to_value(&p.arrows[i].1))).ok()?;
                built[2].finalize_unpruned().ok()
            });
            if let Some(r) = r {
                v.push((format!("{}#{k}", fam.jet(j)), r));
            }
        }
    }
    v
}

fn race_run_all(progs: &[(String, Arc<RedeemNode>)]) -> Vec<String> {
    let env = crate::space::envs::build(&crate::space::envs::base_env());
    progs
        .iter()
        .map(|(_, r)| match BitMachine::for_program(r) {
            Err(e) => format!("limits:{e}"),
            Ok(mut mac) => match mac.exec(r, &env.env) {
                Ok(v) => format!("ok:{}", v.iter_padded().map(|b| if b { '1' } else { '0' }).collect::<String>()),
                Err(e) => format!("err:{e}"),
            },
        })
        .collect()
}

/// `mc --race-body`: what runs under the race detector (and, without it, a plain differential run)
pub fn race_body(part: usize, parts: usize) {
    let progs = Arc::new(race_programs(part, parts));
    let sequential = race_run_all(&progs);
    let hs: Vec<_> = (0..2)
        .map(|_| {
            let progs = progs.clone();
            std::thread::spawn(move || race_run_all(&progs))
        })
        .collect();
    let mut bad = 0;
    for (t, h) in hs.into_iter().enumerate() {
        let got = h.join().expect("race body thread panicked");
        for (k, (g, w)) in got.iter().zip(&sequential).enumerate() {
            if g != w {
                bad += 1;
                println!("RACE-RESULT-DIFFERS thread={t} program={} concurrent={g} sequential={w}", progs[k].0);
            }
        }
    }
    println!("RACE-BODY programs={} threads=2 differing={bad}", progs.len());
}

/// run `mc --race-body` under helgrind and judge the report
fn leg_c_races(ctx: &Ctx, out: &mut Out) {
    let parts = 8;
    for part in 0..parts {
        leg_c_races_part(ctx, out, part, parts);
    }
}

fn leg_c_races_part(ctx: &Ctx, out: &mut Out, part: usize, parts: usize) {
    let leg = "c-races";
    if !ctx.mine() {
        return;
    }
    let label = || format!("2 unmanaged threads x every Elements jet (part {part}/{parts}) on its corner inputs, under helgrind");
    if !ctx.begin(leg, &label) {
        return;
    }
    out.evaluations += 1;
    let exe = std::env::current_exe().expect("current exe");
    let xml = exe.with_file_name(format!("helgrind-{}-{part}.xml", std::process::id()));
    let res = std::process::Command::new("valgrind")
        .args(["--tool=helgrind", "--xml=yes", "--history-level=approx", "--quiet"])
        .arg(format!("--xml-file={}", xml.display()))
        .arg(&exe)
        .arg("--race-body")
        .arg(part.to_string())
        .arg(parts.to_string())
        .output();
    let o = match res {
        Ok(o) => o,
        Err(e) => panic!("cannot run valgrind: {e}"),
    };
    let stdout = String::from_utf8_lossy(&o.stdout).to_string();
    let report = std::fs::read_to_string(&xml).unwrap_or_default();
    let _ = std::fs::remove_file(&xml);
    let Some(summary) = stdout.lines().find(|l| l.starts_with("RACE-BODY ")) else {
        panic!("race body did not complete under helgrind: status {:?}, stderr {}", o.status, String::from_utf8_lossy(&o.stderr).chars().take(400).collect::<String>());
    };
    let nprogs: u64 = summary.split("programs=").nth(1).and_then(|s| s.split(' ').next()).and_then(|s| s.parse().ok()).unwrap_or(0);
    out.states += nprogs;
    out.transitions += 3 * nprogs;
    out.nontrivial += nprogs;
    for l in stdout.lines().filter(|l| l.starts_with("RACE-RESULT-DIFFERS")) {
        out.violation("race:result-differs", leg, label(), l.to_string());
    }
    // one <error> element per report; take the function names of its first stack
    let mut total = 0;
    let mut in_c = 0;
    for e in report.split("<error>").skip(1) {
        if !e.contains("<kind>Race</kind>") {
            continue;
        }
        total += 1;
        // frames of the report: (function, source directory)
        let frames: Vec<(&str, &str)> = e
            .split("<frame>")
            .skip(1)
            .map(|f| {
                let get = |tag: &str| f.split(&format!("<{tag}>")).nth(1).and_then(|s| s.split(&format!("</{tag}>")).next()).unwrap_or("");
                (get("fn"), get("dir"))
            })
            .collect();
        let fns: Vec<&str> = frames.iter().map(|f| f.0).collect();
        // libsimplicity code: exported symbols carry the crate's prefix, static functions are
        // recognised by the vendored source directory
        let cfn = frames.iter().take(8).find(|(f, d)| f.starts_with("rustsimplicity_0_7_") || d.contains("/depend/simplicity")).map(|f| f.0);
        if cfn.is_some() {
            in_c += 1;
            let what = e.split("<what>").nth(1).and_then(|s| s.split("</what>").next()).unwrap_or("data race");
            let site = cfn.unwrap_or("?");
            out.violation(&format!("race:c-code:{site}"), leg, label(), format!("helgrind: {what}; stack: {}", fns.iter().take(6).copied().collect::<Vec<_>>().join(" < ")));
        }
    }
    out.note(format!("c-races: helgrind reported {total} races, {in_c} with a libsimplicity C frame (only those count: Rust's futex locks are invisible to helgrind)"));
    if in_c == 0 {
        out.outcome("c-races:none");
        out.sample(leg, || (label(), format!("{nprogs} jet programs on 2 threads: no unordered conflicting accesses in C code")));
    }
    ctx.end();
}

// ---------------------------------------------------------------------------------------------
// Cold-start pass (SAMPLED, complementary): state that is built lazily on first use and shared by
// the whole process can only go wrong on the very first concurrent uses, and only code that has a
// scheduling point inside the window can be steered there by the controlled scheduler. This pass
// starts a fresh process per trial, lines 8 unmanaged threads up behind a spin barrier before each
// first use, and compares every thread's result with the result of a single-threaded fresh process.
// A difference is a true violation (the operations are deterministic); silence proves nothing, and
// the evidence says so.

fn cold_ops(variant: usize) -> Vec<(String, Box<dyn Fn() -> String + Send + Sync>)> {
    use simplicity::jet::{Elements, Jet};
    use simplicity::types::Final;
    let mut v: Vec<(String, Box<dyn Fn() -> String + Send + Sync>)> = vec![];
    let fp = |t: &Final| format!("{}:{}", t.bit_width(), t.tmr());
    // the order of first uses is part of the trial: process-wide tables grown on demand behave
    // differently when approached from below, from above or in jumps
    let order: Vec<usize> = match variant % 3 {
        0 => (0..32).collect(),
        1 => (0..32).rev().collect(),
        _ => (0..32).map(|i| (i * 7 + 11) % 32).collect(),
    };
    for n in order {
        v.push((format!("two_two_n({n})"), Box::new(move || Final::two_two_n(n).map(|t| fp(&t)).unwrap_or_else(|e| format!("err:{e:?}")))));
    }
    for n in 0..16usize {
        v.push((format!("buffer8_two_n_plus_one({n})"), Box::new(move || Final::buffer8_two_n_plus_one(n).map(|t| fp(&t)).unwrap_or_else(|e| format!("err:{e:?}")))));
    }
    v.push(("ctx8".into(), Box::new(move || fp(&Final::ctx8()))));
    v.push(("Value::u64/u256".into(), Box::new(|| format!("{}|{}", Value::u64(7).ty(), Value::u256([3; 32]).ty()))));
    v.push(("Type::two_two_n in a context".into(), Box::new(|| types::Context::with_context(|ctx| (0..12).map(|n| format!("{}", types::Type::two_two_n(&ctx, n).finalize().map(|f| f.tmr().to_string()).unwrap_or_default())).collect::<Vec<_>>().join(",")))));
    v.push(("jet types".into(), Box::new(|| {
        let mut h = String::new();
        for j in Elements::ALL.iter().step_by(7) {
            h.push_str(&format!("{}>{};", j.source_ty().to_final().tmr(), j.target_ty().to_final().tmr()));
        }
        crate::reference::bits::hex(&crate::reference::sha::sha256(h.as_bytes()))
    })));
    v.push(("shared program".into(), Box::new(|| fp_redeem(&shared_program()))));
    // machines of several sizes created, run and dropped by all threads at once, many rounds (process-wide
    // accounting of machines would live here)
    for round in 0..24usize {
        let n = [13usize, 14, 10, 16][round % 4];
        v.push((format!("machine with a 2^{n}-bit frame, round {round}"), Box::new(move || {
            let ty = match simplicity::types::Final::two_two_n(n) {
                Ok(t) => t,
                Err(e) => return format!("err:{e:?}"),
            };
            let r = types::Context::with_context(|ctx| {
                let w = Arc::<simplicity::ConstructNode>::witness(&ctx, Some(Value::zero(&ty)));
                // (nothing downstream destructs the word: pin the witness type by hand)
                ctx.unify(&w.arrow().target, &types::Type::complete(&ctx, ty.clone()), "harness: witness type").map_err(|e| e.to_string())?;
                Arc::<simplicity::ConstructNode>::comp(&w, &Arc::<simplicity::ConstructNode>::unit(&ctx)).map_err(|e| e.to_string())?.finalize_unpruned().map_err(|e| e.to_string())
            });
            match r {
                Err(e) => format!("err:{e}"),
                Ok(p) => match BitMachine::for_program(&p) {
                    Err(e) => format!("limits:{e}"),
                    Ok(mut m) => match m.exec(&p, &CoreEnv::new()) {
                        Ok(v) => format!("ok:{}", v.ty()),
                        Err(e) => format!("exec:{e}"),
                    },
                },
            }
        })));
    }
    v.push(("infer + finalize".into(), Box::new(|| {
        types::Context::with_context(|ctx| {
            let w = Arc::<simplicity::ConstructNode>::witness(&ctx, Some(Value::u64(1)));
            let j = Arc::<simplicity::ConstructNode>::jet(&ctx, &Core::Le64);
            let p = Arc::<simplicity::ConstructNode>::pair(&w, &w).and_then(|p| Arc::<simplicity::ConstructNode>::comp(&p, &j));
            match p.map(|p| Arc::<simplicity::ConstructNode>::comp(&p, &Arc::<simplicity::ConstructNode>::unit(&ctx))) {
                Ok(Ok(p)) => p.finalize_unpruned().map(|r| format!("{}", r.ihr())).unwrap_or_else(|e| format!("err:{e}")),
                _ => "err:build".into(),
            }
        })
    })));
    v
}

/// `mc --cold-body <threads>`: prints one line per (operation, thread)
pub fn cold_body(threads: usize, variant: usize) {
    use std::sync::atomic::{AtomicUsize, Ordering};
    let ops = Arc::new(cold_ops(variant));
    let arrived = Arc::new(AtomicUsize::new(0));
    let hs: Vec<_> = (0..threads)
        .map(|t| {
            let (ops, arrived) = (ops.clone(), arrived.clone());
            std::thread::spawn(move || {
                let mut lines = vec![];
                for (k, (_, op)) in ops.iter().enumerate() {
                    // spin barrier: everybody starts operation k together
                    arrived.fetch_add(1, Ordering::SeqCst);
                    let mut spins = 0u32;
                    while arrived.load(Ordering::SeqCst) < (k + 1) * threads {
                        std::hint::spin_loop();
                        spins += 1;
                        // with fewer free cores than threads, give the others a chance to arrive
                        if spins % 2048 == 0 {
                            std::thread::yield_now();
                        }
                    }
                    let r = std::panic::catch_unwind(std::panic::AssertUnwindSafe(|| op())).unwrap_or_else(|_| "panic".into());
                    lines.push(format!("FP {k} {t} {r}"));
                    let _ = k;
                }
                lines
            })
        })
        .collect();
    for h in hs {
        for l in h.join().expect("cold body thread") {
            println!("{l}");
        }
    }
    println!("COLD-BODY ops={} threads={threads}", ops.len());
}

fn leg_cold_start(ctx: &Ctx, out: &mut Out) {
    let leg = "cold-start";
    let trials = ctx.tier.pick(150, 2400);
    let exe = std::env::current_exe().expect("current exe");
    let run = |threads: usize, variant: usize| -> Vec<(String, String, String)> {
        let o = std::process::Command::new(&exe).arg("--cold-body").arg(threads.to_string()).arg(variant.to_string()).output().expect("spawn cold body");
        let s = String::from_utf8_lossy(&o.stdout).to_string();
        if !s.lines().any(|l| l.starts_with("COLD-BODY ")) {
            panic!("cold body did not complete: {:?} {}", o.status, String::from_utf8_lossy(&o.stderr).chars().take(300).collect::<String>());
        }
        let names: Vec<String> = cold_ops(variant).into_iter().map(|o| o.0).collect();
        // "FP k t r" -> (operation name, thread, result)
        s.lines()
            .filter(|l| l.starts_with("FP "))
            .map(|l| {
                let mut it = l.splitn(4, ' ');
                let (_, k, t, r) = (it.next(), it.next().unwrap().parse::<usize>().unwrap(), it.next().unwrap_or("?"), it.next().unwrap_or(""));
                (names[k].clone(), t.to_string(), r.to_string())
            })
            .collect()
    };
    let mut reference: Option<std::collections::HashMap<String, String>> = None;
    for trial in 0..trials {
        if !ctx.mine() {
            continue;
        }
        let label = || format!("fresh process, 8 unmanaged threads, every lazily built table first used by all of them at once (first-use order {}, trial {trial})", ["ascending", "descending", "strided"][trial % 3]);
        if !ctx.begin(leg, &label) {
            continue;
        }
        // single-threaded fresh process (results do not depend on the order there)
        let refr = reference.get_or_insert_with(|| run(1, 0).into_iter().map(|(n, _, r)| (n, r)).collect());
        out.evaluations += 1;
        let mut bad: Option<String> = None;
        for (name, t, r) in run(8, trial) {
            out.transitions += 1;
            if Some(&r) != refr.get(&name) && bad.is_none() {
                bad = Some(format!("operation `{name}` on thread {t} returns `{r}`; a single-threaded fresh process returns `{}`", refr.get(&name).cloned().unwrap_or_default()));
            }
        }
        match bad {
            None => {
                out.outcome("cold-start:same");
                out.sample(leg, || (label(), "every operation on every thread equals the single-threaded result".into()));
            }
            Some(d) => out.violation("race:cold-start-result-differs", leg, label(), d),
        }
        ctx.end();
    }
    out.note(format!("cold-start: {trials} sampled trials (fresh process each), complementary to the exhaustive schedule exploration; not counted in states"));
}
