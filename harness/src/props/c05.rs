//! C05 - Bit Machine execution equals the denotational semantics (and, sharing the driver,
//! C07 - static resource bounds cover every execution).

use crate::engine::{guard, panic_class, Ctx, Out, PropDef, Tier};
use crate::reference::eval::*;
use crate::reference::jets::jet_semantics;
use crate::reference::tyval::*;
use crate::space::dag::Fam;
use crate::space::terms::*;
use simplicity::jet::Jet;
use std::rc::Rc;

pub static DEF: PropDef = PropDef {
    id: "C05",
    run: run_c05,
    rule: "states = distinct (term, placement) programs built on the real nodes; transitions = executions on the real Bit Machine (one per input value) compared with the big-step evaluator; non-trivial = term contains case/comp/pair/disconnect/jet or runs at a non-zero placement offset",
    assumptions: &[
        "reference = 12-lines-per-combinator big-step evaluator on tree values; jets from a hand-written table, itself compared with the C jets exhaustively on 8-bit operands here",
        "every node's arrow is pinned to the generated annotation through the public Context::unify, so the program that runs is exactly the typed term that was generated",
    ],
    shards: (32, 128),
    budget_ms: (60_000, 180_000),
};

#[derive(Clone, Copy, PartialEq, Eq)]
pub enum Mode {
    Semantics,
    Bounds,
}

/// largest term (nodes, before placement) whose executions are repeated under the recording tracker
static TRACE_MAX_TERM: std::sync::atomic::AtomicUsize = std::sync::atomic::AtomicUsize::new(usize::MAX);

fn run_c05(ctx: &Ctx, out: &mut Out) {
    // thorough: the 5-node terms over T_3 (6.9e8 programs) are judged on output and verdict only; every term of the
    // quick tier's size is traced there too, over the larger type universe
    TRACE_MAX_TERM.store(ctx.tier.pick(usize::MAX, 4), std::sync::atomic::Ordering::Relaxed);
    drive(ctx, out, Mode::Semantics);
}

pub fn drive(ctx: &Ctx, out: &mut Out, mode: Mode) {
    leg_terms(ctx, out, mode);
    leg_jets(ctx, out, mode);
    leg_disconnect(ctx, out, mode);
    leg_asymmetric(ctx, out, mode);
    leg_padded_sources(ctx, out, mode);
    if mode == Mode::Semantics {
        leg_derived(ctx, out);
    }
    if mode == Mode::Bounds {
        leg_nesting(ctx, out);
    }
}

fn interesting(t: &Term) -> bool {
    match &t.tm {
        Tm::Case(..) | Tm::Comp(..) | Tm::Pair(..) | Tm::Disconnect(..) | Tm::Jet(_) | Tm::AssertL(..) | Tm::AssertR(..) => true,
        Tm::InjL(s) | Tm::InjR(s) | Tm::Take(s) | Tm::Drop(s) => interesting(s),
        _ => false,
    }
}

/// run one (term, placement) program on every given input; compare with the reference
pub fn check_program(b: &mut Builder, t: &Rc<Term>, p: Place, inputs: &[Rc<RV>], mode: Mode, out: &mut Out) -> Result<(), (String, String)> {
    let wrapped = place(t, p);
    let prog = b.redeem(&wrapped).map_err(|e| ("build".to_string(), e))?;
    let tgt = b.fin(&wrapped.tgt);
    // the tracker comparison re-runs the program: on large input sets (jets) it is taken on a fixed stride
    let trace_stride = (inputs.len() / 256).max(1);
    if mode == Mode::Semantics && trace_stride > 1 {
        out.cap("tracker traces on input sets above 256 values (jets on corner grids): every (n/256)-th input is traced; outputs and verdicts are compared on every input");
    }
    if mode == Mode::Semantics && t.size() > TRACE_MAX_TERM.load(std::sync::atomic::Ordering::Relaxed) {
        out.cap("thorough tier: tracker traces for terms of at most 4 nodes; larger terms are judged on output and verdict");
    }
    for (input_ix, input) in inputs.iter().enumerate() {
        out.transitions += 1;
        let obs = run_on_machine(&prog, input, &wrapped.src, &tgt).map_err(|e| ("exec:unexpected".to_string(), format!("input {input}: {e}")))?;
        // the closure borrows b mutably for CMRs of disconnect branches
        let expect = {
            let mut cm = |x: &Term| b.cmr(x);
            let cell = std::cell::RefCell::new(&mut cm);
            eval(&wrapped, input, &|x| (cell.borrow_mut())(x))
        };
        match mode {
            Mode::Semantics => {
                if obs.limit_refused {
                    return Err(("exec:limit".into(), format!("input {input}: {}", obs.output_problem.unwrap_or_default())));
                }
                match (&obs.result, &expect) {
                    (Ok(got), Ok(want)) => {
                        if let Some(pb) = &obs.output_problem {
                            return Err(("exec:output-type".into(), format!("input {input}: {pb}")));
                        }
                        if got != want {
                            return Err(("exec:wrong-output".into(), format!("input {input}: machine returns {}, semantics give {} (result of the term itself: {})", got, want, unplace(want, p))));
                        }
                        out.outcome("success");
                    }
                    (Err(a), Err(e)) => {
                        if a != e {
                            return Err(("exec:wrong-failure-kind".into(), format!("input {input}: machine fails with {a:?}, semantics with {e:?}")));
                        }
                        out.outcome(match a {
                            Failure::Assert => "fails:assertion",
                            Failure::FailNode => "fails:fail-node",
                            Failure::Jet => "fails:jet",
                        });
                    }
                    (Ok(got), Err(e)) => return Err(("exec:succeeds-but-semantics-fail".into(), format!("input {input}: machine returns {got}, semantics fail with {e:?}"))),
                    (Err(a), Ok(want)) => return Err(("exec:fails-but-semantics-succeed".into(), format!("input {input}: machine fails with {a:?}, semantics give {want}"))),
                }
                if input_ix % trace_stride != 0 || t.size() > TRACE_MAX_TERM.load(std::sync::atomic::Ordering::Relaxed) {
                    continue;
                }
                // intermediate states: every node visit the machine reports to a tracker, against the traced semantics
                let want_trace = {
                    let mut cm = |x: &Term| b.cmr(x);
                    let cell = std::cell::RefCell::new(&mut cm);
                    let tr = std::cell::RefCell::new(vec![]);
                    let _ = eval_traced(&wrapped, input, &|x| (cell.borrow_mut())(x), &tr);
                    tr.into_inner()
                };
                let got_trace = trace_on_machine(&prog, input, &wrapped.src).map_err(|e| ("trace:unexpected".to_string(), format!("input {input}: {e}")))?;
                out.transitions += got_trace.len() as u64;
                for (i, w) in want_trace.iter().enumerate() {
                    match got_trace.get(i) {
                        None => return Err(("trace:short".into(), format!("input {input}: the tracker saw {} node visits, the semantics evaluate {} sub-terms; first missing: #{i} {w}", got_trace.len(), want_trace.len()))),
                        Some(Err(e)) => return Err(("trace:unreadable-frame".into(), format!("input {input}: visit #{i}: {e}; semantics: {w}"))),
                        Some(Ok(g)) if g != w => {
                            let class = if g.kind != w.kind { "trace:wrong-node" } else if g.input != w.input { "trace:wrong-input" } else { "trace:wrong-output" };
                            return Err((class.into(), format!("input {input}: visit #{i}: the tracker saw {g}, the semantics give {w}")));
                        }
                        _ => {}
                    }
                }
                if got_trace.len() > want_trace.len() {
                    return Err(("trace:long".into(), format!("input {input}: the tracker saw {} node visits, the semantics evaluate {} sub-terms", got_trace.len(), want_trace.len())));
                }
                out.count("traced-visits", want_trace.len() as u64);
            }
            Mode::Bounds => {
                if obs.limit_refused {
                    return Err(("bounds:refused-small-program".into(), format!("input {input}: {}", obs.output_problem.unwrap_or_default())));
                }
                out.max("cells-used", obs.hw.0 as u64);
                out.max("frames-used", obs.hw.1 as u64);
                if obs.hw.0 > obs.allowance.0 {
                    return Err(("bounds:cells".into(), format!("input {input}: {} cells used, |A|+|B|+extra_cells = {}", obs.hw.0, obs.allowance.0)));
                }
                if obs.hw.1 > obs.allowance.1 {
                    return Err(("bounds:frames".into(), format!("input {input}: {} frames used, extra_frames+2 = {}", obs.hw.1, obs.allowance.1)));
                }
                out.count("slack-cells", (obs.allowance.0 - obs.hw.0) as u64);
                out.outcome(if obs.result.is_ok() { "within-bounds:success-path" } else { "within-bounds:failing-path" });
            }
        }
    }
    Ok(())
}

pub fn inputs_of(t: &RT) -> Vec<Rc<RV>> {
    if t.cardinality() <= 64 {
        values_of(t, 64).0
    } else {
        corner_values(t)
    }
}

fn leg_terms(ctx: &Ctx, out: &mut Out, mode: Mode) {
    let leg = "terms";
    let k = ctx.tier.pick(2, 3);
    let smax = ctx.tier.pick(4, 5);
    let splace = ctx.tier.pick(3, 4);
    let mut u = Universe::new(k, true);
    let mut b = Builder::new();
    let nt = u.types.len();
    let places = placements();
    for a in 0..nt {
        for bb in 0..nt {
            if !ctx.mine() {
                continue;
            }
            let inputs = inputs_of(&u.types[a]);
            for size in 1..=smax {
                let terms = u.gen(a, bb, size);
                if terms.len() > 200_000 {
                    out.cap(format!("arrow {} -> {} has {} terms of size {size}: first 200000 only", u.types[a], u.types[bb], terms.len()));
                }
                for t in terms.iter().take(200_000) {
                    for p in &places {
                        if *p != Place::Bare && size > splace {
                            continue;
                        }
                        let label = || format!("{} at {:?}", t.describe(), p);
                        if !ctx.begin(leg, &label) {
                            continue;
                        }
                        out.evaluations += 1;
                        out.states += 1;
                        if interesting(t) || *p != Place::Bare {
                            out.nontrivial += 1;
                        }
                        match guard(|| check_program(&mut b, t, *p, &inputs, mode, out)) {
                            Ok(Ok(())) => {
                                if interesting(t) && *p != Place::Bare {
                                    out.sample(leg, || (label(), format!("{} inputs: machine agrees with the reference", inputs.len())));
                                }
                            }
                            Ok(Err((c, d))) => out.violation(&c, leg, label(), d),
                            Err(pn) => out.violation(&panic_class(&pn), leg, label(), pn),
                        }
                        ctx.end();
                    }
                }
            }
        }
    }
}

fn corner_words(n: usize) -> Vec<Vec<bool>> {
    let from = |f: &dyn Fn(usize) -> bool| (0..n).map(|i| f(n - 1 - i)).collect::<Vec<bool>>(); // f(bit position from LSB)
    let num = |v: u128| from(&|p| p < 128 && v >> p & 1 == 1);
    let mut v = vec![
        num(0),
        num(1),
        num(2),
        num(3),
        num(7),
        num(10),
        from(&|_| true),
        from(&|p| p != 0),
        from(&|p| p != n - 1),
        from(&|p| p == n - 1),
        from(&|p| p % 2 == 0),
        from(&|p| p % 2 == 1),
        from(&|p| p == n / 2),
        from(&|p| (p * 7 + 3) % 5 < 2),
    ];
    v.sort();
    v.dedup();
    v
}

/// inputs for a jet whose source type is a product of bits of total width w, made of `parts` operands
fn jet_inputs(src: &RT, name: &str, tier: Tier) -> Vec<Rc<RV>> {
    let w = src.width() as usize;
    let mk = |bits: &[bool]| {
        let mut pos = 0;
        RV::from_compact(src, bits, &mut pos).unwrap()
    };
    let exhaustive_limit = tier.pick(16, 20);
    if w <= exhaustive_limit {
        return (0..(1u64 << w)).map(|x| mk(&(0..w).rev().map(|i| x >> i & 1 == 1).collect::<Vec<_>>())).collect();
    }
    // operand structure from the name: width n, count = w / n (with an optional leading carry bit)
    let n: usize = name.rsplit_once('_').and_then(|(_, x)| x.parse().ok()).unwrap_or(w);
    let lead = w % n;
    let cnt = w / n;
    let cw = corner_words(n);
    let mut res = vec![];
    let mut idx = vec![0usize; cnt];
    loop {
        for carry in 0..(1u64 << lead) {
            let mut bits: Vec<bool> = (0..lead).rev().map(|i| carry >> i & 1 == 1).collect();
            for k in 0..cnt {
                bits.extend(cw[idx[k]].iter().copied());
            }
            res.push(mk(&bits));
        }
        let mut k = 0;
        loop {
            if k == cnt {
                return res;
            }
            idx[k] += 1;
            if idx[k] < cw.len() {
                break;
            }
            idx[k] = 0;
            k += 1;
        }
    }
}

fn leg_jets(ctx: &Ctx, out: &mut Out, mode: Mode) {
    let leg = "jets";
    let mut b = Builder::new();
    let fam = Fam::Core;
    let mut covered = 0;
    for j in 0..fam.n_jets() as u16 {
        let jet = fam.jet(j);
        let name: &'static str = Box::leak(jet.to_string().into_boxed_str());
        if jet_semantics(name).is_none() {
            continue;
        }
        covered += 1;
        if !ctx.mine() {
            continue;
        }
        let src = RT::from_final(&jet.source_ty().to_final());
        let tgt = RT::from_final(&jet.target_ty().to_final());
        if src.has_padding() || tgt.has_padding() {
            out.violation("jets:table", leg, name.to_string(), "reference table entry for a jet whose type is not a product of bits".into());
            continue;
        }
        let t = Term::new(Tm::Jet(name), &src, &tgt);
        let inputs = jet_inputs(&src, name, ctx.tier);
        for p in [Place::Bare, Place::ReadOffset(3), Place::WriteOffset(5), Place::DirtyOutput, Place::ThenReread] {
            // placements other than bare on a thinned input set
            let ins: Vec<Rc<RV>> = if p == Place::Bare { inputs.clone() } else { inputs.iter().step_by(1 + inputs.len() / 512).cloned().collect() };
            let label = || format!("{} at {:?} ({} inputs)", t.describe(), p, ins.len());
            if !ctx.begin(leg, &label) {
                continue;
            }
            out.evaluations += 1;
            out.states += 1;
            out.nontrivial += 1;
            match guard(|| check_program(&mut b, &t, p, &ins, mode, out)) {
                Ok(Ok(())) => out.sample(leg, || (label(), "C jet through exec_jet agrees with the reference semantics on every input".into())),
                Ok(Err((c, d))) => out.violation(&c, leg, label(), d),
                Err(pn) => out.violation(&panic_class(&pn), leg, label(), pn),
            }
            ctx.end();
        }
    }
    if ctx.shard == 0 {
        out.count("jets-with-reference-semantics", covered);
    }
}

/// disconnect(s, r) : A -> B x D for s : 2^256 x A -> B x C of three shapes and every small r : C -> D
pub fn disconnect_terms(tier: Tier) -> Vec<Rc<Term>> {
    let mut u = Universe::new(tier.pick(1, 2), true);
    let h = RT::word(8);
    let nt = u.types.len();
    let mut all = vec![];
    for a in 0..nt {
        for d in 0..nt {
            let (ta, td) = (u.types[a].clone(), u.types[d].clone());
            let ha = RT::prod(&h, &ta);
            // left branches: s : 2^256 x A -> B x C
            let one = RT::unit();
            let mut lefts: Vec<(Rc<Term>, Rc<RT>, Rc<RT>)> = vec![];
            // iden : B = 2^256, C = A  (the CMR of the right branch becomes visible in the output)
            lefts.push((Term::new(Tm::Iden, &ha, &ha), h.clone(), ta.clone()));
            // pair unit (drop iden) : B = 1, C = A
            let di = Term::new(Tm::Drop(Term::new(Tm::Iden, &ta, &ta)), &ha, &ta);
            let un = Term::new(Tm::Unit, &ha, &one);
            lefts.push((Term::new(Tm::Pair(un.clone(), di.clone()), &ha, &RT::prod(&one, &ta)), one.clone(), ta.clone()));
            // pair (drop iden) (take iden) : B = A, C = 2^256 (the branch receives its own CMR)
            let ti = Term::new(Tm::Take(Term::new(Tm::Iden, &h, &h)), &ha, &h);
            lefts.push((Term::new(Tm::Pair(di, ti), &ha, &RT::prod(&ta, &h)), ta.clone(), h.clone()));
            for (s, tb, tc) in lefts {
                // right branches r : C -> D
                let rights: Vec<Rc<Term>> = match u.index.get(&tc).copied() {
                    Some(c) => (1..=2).flat_map(|sz| u.gen(c, d, sz).iter().cloned().collect::<Vec<_>>()).collect(),
                    None => {
                        // C = 2^256
                        let mut v = vec![];
                        if *td == RT::Unit {
                            v.push(Term::new(Tm::Unit, &tc, &td));
                        }
                        if td.as_word() == Some(0) {
                            // is the received CMR equal to itself? (eq_256 on (c, c))
                            let id = Term::new(Tm::Iden, &tc, &tc);
                            let pr = Term::new(Tm::Pair(id.clone(), id), &tc, &RT::prod(&tc, &tc));
                            let eq = Term::new(Tm::Jet("eq_256"), &RT::prod(&tc, &tc), &td);
                            v.push(Term::new(Tm::Comp(pr, eq), &tc, &td));
                        }
                        v
                    }
                };
                for r in rights {
                    all.push(Term::new(Tm::Disconnect(s.clone(), r), &ta, &RT::prod(&tb, &td)));
                }
            }
        }
    }
    all
}

fn leg_disconnect(ctx: &Ctx, out: &mut Out, mode: Mode) {
    let leg = "disconnect";
    let mut b = Builder::new();
    for t in disconnect_terms(ctx.tier) {
        if !ctx.mine() {
            continue;
        }
        let inputs = inputs_of(&t.src);
        for p in [Place::Bare, Place::ReadOffset(1), Place::WriteOffset(7), Place::DirtyOutput, Place::ThenReread, Place::DirtyAt(1), Place::DirtyAt(2), Place::DirtyAt(3), Place::DirtyAt(4), Place::DirtyAt(5), Place::DirtyAt(6), Place::DirtyAt(7)] {
            let label = || format!("{} at {:?}", t.describe(), p);
            if !ctx.begin(leg, &label) {
                continue;
            }
            out.evaluations += 1;
            out.states += 1;
            out.nontrivial += 1;
            match guard(|| check_program(&mut b, &t, p, &inputs, mode, out)) {
                Ok(Ok(())) => out.sample(leg, || (label(), "disconnect passes the re-hashed CMR of its right branch; outputs agree".into())),
                Ok(Err((c, dd))) => out.violation(&c, leg, label(), dd),
                Err(pn) => out.violation(&panic_class(&pn), leg, label(), pn),
            }
            ctx.end();
        }
    }
}

/// comp / disconnect towers around small terms (C07 only)
fn leg_nesting(ctx: &Ctx, out: &mut Out) {
    let leg = "nesting";
    let mut u = Universe::new(2, true);
    let mut b = Builder::new();
    let nt = u.types.len();
    let h = RT::word(8);
    for a in 0..nt {
        if !ctx.mine() {
            continue;
        }
        let ta = u.types[a].clone();
        let bases: Vec<Rc<Term>> = (1..=2).flat_map(|sz| u.gen(a, a, sz).iter().cloned().collect::<Vec<_>>()).collect();
        for base in bases.iter().take(40) {
            for depth in 1..=ctx.tier.pick(4, 6) {
                for kind in ["comp-left", "comp-right", "disconnect"] {
                    // towers keep the arrow A -> A so that they can be stacked
                    let mut t = base.clone();
                    for _ in 0..depth {
                        t = match kind {
                            "comp-left" => Term::new(Tm::Comp(t.clone(), Term::new(Tm::Iden, &ta, &ta)), &ta, &ta),
                            "comp-right" => Term::new(Tm::Comp(Term::new(Tm::Iden, &ta, &ta), t.clone()), &ta, &ta),
                            _ => {
                                // disconnect (pair unit (drop t)) iden ; then drop the unit: A -> 1 x A -> A
                                let ha = RT::prod(&h, &ta);
                                let one = RT::unit();
                                let dt = Term::new(Tm::Drop(t.clone()), &ha, &ta);
                                let un = Term::new(Tm::Unit, &ha, &one);
                                let oa = RT::prod(&one, &ta);
                                let s = Term::new(Tm::Pair(un, dt), &ha, &oa);
                                let d = Term::new(Tm::Disconnect(s, Term::new(Tm::Iden, &ta, &ta)), &ta, &oa);
                                let back = Term::new(Tm::Drop(Term::new(Tm::Iden, &ta, &ta)), &oa, &ta);
                                Term::new(Tm::Comp(d, back), &ta, &ta)
                            }
                        };
                    }
                    let inputs = inputs_of(&ta);
                    let label = || format!("{kind} tower depth {depth} around {}", base.describe());
                    if !ctx.begin(leg, &label) {
                        continue;
                    }
                    out.evaluations += 1;
                    out.states += 1;
                    out.nontrivial += 1;
                    match guard(|| check_program(&mut b, &t, Place::Bare, &inputs, Mode::Bounds, out)) {
                        Ok(Ok(())) => out.sample(leg, || (label(), "high-water marks within the static bounds on every input".into())),
                        Ok(Err((c, d))) => out.violation(&c, leg, label(), d),
                        Err(pn) => out.violation(&panic_class(&pn), leg, label(), pn),
                    }
                    ctx.end();
                }
            }
        }
    }
}

/// Binary combinators over children with *crossed* resource profiles: one child needs many cells in
/// one frame, the other few cells in many frames (a bound that takes both maxima from the same child,
/// or an execution that sizes a frame from the wrong child, only shows on such pairs).
pub fn asymmetric_terms() -> Vec<(String, Rc<Term>)> {
    let mut all = vec![];
    for ta in [RT::bit(), RT::word(1)] {
        let iden = |t: &Rc<RT>| Term::new(Tm::Iden, t, t);
        let dup = |s: &Rc<Term>| Term::new(Tm::Pair(s.clone(), s.clone()), &s.src, &RT::prod(&s.tgt, &s.tgt));
        // wide(k): comp (A -> A^(2^k), pairs only) (take^k iden): one frame of 2^k |A| cells
        let wide = |k: usize| {
            let mut p = iden(&ta);
            for _ in 0..k {
                p = dup(&p);
            }
            let mut tys = vec![ta.clone()];
            for i in 0..k {
                let last = tys[i].clone();
                tys.push(RT::prod(&last, &last));
            }
            let mut q = iden(&ta);
            for i in 0..k {
                q = Term::new(Tm::Take(q), &tys[i + 1], &ta);
            }
            Term::new(Tm::Comp(p, q), &ta, &ta)
        };
        // deep(k): k nested compositions of iden: k frames of |A| cells
        let deep = |k: usize, left: bool| {
            let mut t = iden(&ta);
            for _ in 0..k {
                t = if left { Term::new(Tm::Comp(t, iden(&ta)), &ta, &ta) } else { Term::new(Tm::Comp(iden(&ta), t), &ta, &ta) };
            }
            t
        };
        let gadgets: Vec<(String, Rc<Term>)> = vec![
            ("iden".into(), iden(&ta)),
            ("wide(2)".into(), wide(2)),
            ("wide(3)".into(), wide(3)),
            ("deep(2)".into(), deep(2, false)),
            ("deep(5)".into(), deep(5, false)),
            ("deepL(3)".into(), deep(3, true)),
            ("comp iden wide(2)".into(), Term::new(Tm::Comp(iden(&ta), wide(2)), &ta, &ta)),
        ];
        let sel = RT::prod(&RT::bit(), &ta);
        let one_a = RT::prod(&RT::unit(), &ta);
        for (nx, x) in &gadgets {
            for (ny, y) in &gadgets {
                all.push((format!("comp {nx} {ny}"), Term::new(Tm::Comp(x.clone(), y.clone()), &ta, &ta)));
                all.push((format!("pair {nx} {ny}"), Term::new(Tm::Pair(x.clone(), y.clone()), &ta, &RT::prod(&ta, &ta))));
                all.push((
                    format!("case (drop {nx}) (drop {ny})"),
                    Term::new(Tm::Case(Term::new(Tm::Drop(x.clone()), &one_a, &ta), Term::new(Tm::Drop(y.clone()), &one_a, &ta)), &sel, &ta),
                ));
            }
        }
    }
    all
}

fn leg_asymmetric(ctx: &Ctx, out: &mut Out, mode: Mode) {
    let leg = "asymmetric";
    let mut b = Builder::new();
    let mut own = false;
    for (k, (name, t)) in asymmetric_terms().into_iter().enumerate() {
        if k % 3 == 0 {
            own = ctx.mine();
        }
        if !own {
            continue;
        }
        let inputs = inputs_of(&t.src);
        for p in [Place::Bare, Place::ReadOffset(1), Place::DirtyOutput, Place::ThenReread] {
            let label = || format!("{name} : {} -> {} at {:?}", t.src, t.tgt, p);
            if !ctx.begin(leg, &label) {
                continue;
            }
            out.evaluations += 1;
            out.states += 1;
            out.nontrivial += 1;
            match guard(|| check_program(&mut b, &t, p, &inputs, mode, out)) {
                Ok(Ok(())) => out.sample(leg, || (label(), "every input: output agrees with the semantics, marks within the bounds".into())),
                Ok(Err((c, dd))) => out.violation(&c, leg, label(), dd),
                Err(pn) => out.violation(&panic_class(&pn), leg, label(), pn),
            }
            ctx.end();
        }
    }
}

/// Programs whose *source* type has padding (the compact and the padded length of an input differ),
/// over a closed list of such types: every term of up to 4 (5) nodes from each padded source to each
/// listed type, on every input. The input frame, the output frame and the first intermediate frame
/// are neighbours in the machine's memory; a frame sized by the wrong length shows only here.
fn leg_padded_sources(ctx: &Ctx, out: &mut Out, mode: Mode) {
    let leg = "padded-sources";
    let one = RT::unit();
    let two = RT::bit();
    let d = RT::prod(&two, &two);
    let o2 = RT::sum(&one, &two);
    let t2 = RT::sum(&two, &one);
    let od = RT::sum(&one, &d);
    let types: Vec<Rc<RT>> = vec![
        one.clone(),
        two.clone(),
        d.clone(),
        o2.clone(),
        t2.clone(),
        od.clone(),
        RT::prod(&d, &d),
        RT::prod(&o2, &d),
        RT::prod(&t2, &d),
        RT::prod(&d, &o2),
        RT::prod(&od, &d),
        RT::prod(&o2, &two),
    ];
    let mut u = Universe::with_types(types, false);
    let mut b = Builder::new();
    let nt = u.types.len();
    let smax = ctx.tier.pick(4, 5);
    for a in 0..nt {
        if !u.types[a].has_padding() {
            continue;
        }
        for t in 0..nt {
            if !ctx.mine() {
                continue;
            }
            let inputs = inputs_of(&u.types[a]);
            for size in 1..=smax {
                for term in u.gen(a, t, size).iter() {
                    for p in [Place::Bare, Place::DirtyOutput, Place::ThenReread] {
                        let label = || format!("{} at {:?}", term.describe(), p);
                        if !ctx.begin(leg, &label) {
                            continue;
                        }
                        out.evaluations += 1;
                        out.states += 1;
                        out.nontrivial += 1;
                        match guard(|| check_program(&mut b, term, p, &inputs, mode, out)) {
                            Ok(Ok(())) => out.sample(leg, || (label(), "every input (both arms of the padded sum): output agrees with the semantics".into())),
                            Ok(Err((c, dd))) => out.violation(&c, leg, label(), dd),
                            Err(pn) => out.violation(&panic_class(&pn), leg, label(), pn),
                        }
                        ctx.end();
                    }
                }
            }
        }
    }
}

/// The constructors the library derives from the nine combinators (scribe, bit_true/false, cond,
/// assert, not, and, or): built through the public trait methods and executed on every input,
/// against their documented meaning.
fn leg_derived(ctx: &Ctx, out: &mut Out) {
    use crate::space::dag::CNode;
    use simplicity::jet::CoreEnv;
    use simplicity::node::CoreConstructible;
    use simplicity::{types, BitMachine, Cmr};
    let leg = "derived";
    if !ctx.mine() {
        return;
    }
    // Boolean children over the input type 2 x 2: (name, function)
    type B = (&'static str, fn(bool, bool) -> bool);
    let kids: [B; 4] = [("take iden", |a, _| a), ("drop iden", |_, b| b), ("bit_true", |_, _| true), ("bit_false", |_, _| false)];
    fn kid<'b>(c: &types::Context<'b>, k: usize) -> CNode<'b> {
        match k {
            0 => CNode::take(&CNode::iden(c)),
            1 => CNode::drop_(&CNode::iden(c)),
            2 => CNode::bit_true(c),
            _ => CNode::bit_false(c),
        }
    }
    let in_ty = RT::prod(&RT::bit(), &RT::bit());
    let run = |build: &dyn for<'b> Fn(&types::Context<'b>) -> Result<CNode<'b>, types::Error>, a: bool, b: bool| -> Result<Result<Rc<RV>, String>, String> {
        let prog = types::Context::with_context(|c| {
            let n = build(&c).map_err(|e| e.to_string())?;
            // pin the source type to 2 x 2
            c.unify(&n.arrow().source, &types::Type::complete(&c, in_ty.to_final()), "harness: source").map_err(|e| e.to_string())?;
            n.finalize_unpruned().map_err(|e| e.to_string())
        })?;
        let mut mac = BitMachine::for_program(&prog).map_err(|e| e.to_string())?;
        mac.input(&RV::pair(&RV::bit(a), &RV::bit(b)).to_value(&in_ty)).map_err(|e| e.to_string())?;
        Ok(match mac.exec(&prog, &CoreEnv::new()) {
            Ok(v) => Ok(RV::from_value(&v)?),
            Err(e) => Err(e.to_string()),
        })
    };
    let mut cases: Vec<(String, Box<dyn for<'b> Fn(&types::Context<'b>) -> Result<CNode<'b>, types::Error>>, Box<dyn Fn(bool, bool) -> Option<Rc<RV>>>)> = vec![];
    for (i, (ni, fi)) in kids.iter().enumerate() {
        let fi = *fi;
        cases.push((format!("not ({ni})"), Box::new(move |c| CNode::not(&kid(c, i))), Box::new(move |a, b| Some(RV::bit(!fi(a, b))))));
        cases.push((format!("assert ({ni})"), Box::new(move |c| CNode::assert(&kid(c, i), Cmr::from_byte_array([9; 32]))), Box::new(move |a, b| if fi(a, b) { Some(RV::unit()) } else { None })));
        for (j, (nj, fj)) in kids.iter().enumerate() {
            let fj = *fj;
            cases.push((format!("and ({ni}) ({nj})"), Box::new(move |c| CNode::and(&kid(c, i), &kid(c, j))), Box::new(move |a, b| Some(RV::bit(fi(a, b) && fj(a, b))))));
            cases.push((format!("or ({ni}) ({nj})"), Box::new(move |c| CNode::or(&kid(c, i), &kid(c, j))), Box::new(move |a, b| Some(RV::bit(fi(a, b) || fj(a, b))))));
            // cond l r : 2 x A -> B with A = 2 here: the first input bit selects, the children see the second
            cases.push((
                format!("cond ({ni} on the rest) ({nj} on the rest)"),
                Box::new(move |c| {
                    let on_rest = |k: usize| -> CNode<'_> {
                        match k {
                            0 | 1 => CNode::iden(c),
                            2 => CNode::bit_true(c),
                            _ => CNode::bit_false(c),
                        }
                    };
                    CNode::cond(&on_rest(i), &on_rest(j))
                }),
                Box::new(move |a, b| {
                    let v = |k: usize| match k {
                        0 | 1 => b,
                        2 => true,
                        _ => false,
                    };
                    Some(RV::bit(if a { v(i) } else { v(j) }))
                }),
            ));
        }
    }
    for (name, build, want) in &cases {
        for (a, b) in [(false, false), (false, true), (true, false), (true, true)] {
            let label = || format!("{name} on ({}, {})", a as u8, b as u8);
            if !ctx.begin(leg, &label) {
                continue;
            }
            out.evaluations += 1;
            out.states += 1;
            out.nontrivial += 1;
            out.transitions += 1;
            match guard(|| run(build.as_ref(), a, b)) {
                Ok(Ok(got)) => match (got, want(a, b)) {
                    (Ok(g), Some(w)) if g == w => out.sample(leg, || (label(), format!("returns {w}"))),
                    (Err(_), None) => out.sample(leg, || (label(), "fails, as documented".into())),
                    (g, w) => out.violation("derived:meaning", leg, label(), format!("machine gives {:?}, documented meaning {:?}", g.map(|x| x.to_string()), w.map(|x| x.to_string()))),
                },
                // `assert` builds `pair child unit` and `assertr hash unit` from ONE unit node, whose source type
                // must then be both A and 1 x 1: it type-checks for no other A. A defect of that helper, but of
                // no listed property (the constructor is not part of the execution semantics): noted only.
                Ok(Err(e)) if name.starts_with("assert") => {
                    out.count("note:assert-helper-untypable", 1);
                    let _ = e;
                }
                Ok(Err(e)) => out.violation("derived:build", leg, label(), e),
                Err(p) => out.violation(&panic_class(&p), leg, label(), p),
            }
            ctx.end();
        }
    }
    if out.counters.get("note:assert-helper-untypable").copied().unwrap_or(0) > 0 {
        out.note("not a violation of C05: CoreConstructible::assert(child, hash) shares one `unit` node between `pair child unit` (source A) and `assertr hash unit` (source 1 x 1), so it only type-checks when the child's source type is 1 x 1");
    }
    // scribe: an expression that produces the value, for every value of every small type and some words
    let mut tys = types_upto(3);
    tys.extend([RT::word(3), RT::word(6), RT::sum(&RT::word(3), &RT::word(1)), RT::prod(&RT::word(4), &RT::sum(&RT::unit(), &RT::word(3)))]);
    for t in tys {
        let vals = if t.cardinality() <= 64 { values_of(&t, 64).0 } else { corner_values(&t) };
        for v in vals {
            let label = || format!("scribe {v} : {t}");
            if !ctx.begin(leg, &label) {
                continue;
            }
            out.evaluations += 1;
            out.states += 1;
            out.transitions += 1;
            let r = guard(|| -> Result<Rc<RV>, String> {
                let val = v.to_value(&t);
                let prog = types::Context::with_context(|c| {
                    let n = CNode::scribe(&c, &val);
                    c.unify(&n.arrow().source, &types::Type::complete(&c, RT::unit().to_final()), "harness: source").map_err(|e| e.to_string())?;
                    c.unify(&n.arrow().target, &types::Type::complete(&c, t.to_final()), "harness: target").map_err(|e| e.to_string())?;
                    n.finalize_unpruned().map_err(|e| e.to_string())
                })?;
                let mut mac = BitMachine::for_program(&prog).map_err(|e| e.to_string())?;
                let got = mac.exec(&prog, &CoreEnv::new()).map_err(|e| e.to_string())?;
                RV::from_value(&got)
            });
            match r {
                Ok(Ok(g)) if g == v => out.sample(leg, || (label(), "the scribed expression returns the value".into())),
                Ok(Ok(g)) => out.violation("derived:scribe", leg, label(), format!("the scribed expression returns {g}")),
                Ok(Err(e)) => out.violation("derived:scribe", leg, label(), e),
                Err(p) => out.violation(&panic_class(&p), leg, label(), p),
            }
            ctx.end();
        }
    }
}
