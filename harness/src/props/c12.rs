//! C12 - redemption programs only ever carry well-typed witnesses.
//! Hosts: programs whose witness node has target type T by principal typing (a consumer that
//! inspects T completely), witness on an executed branch and on a later-pruned branch; candidate
//! values of every type; routes R1 finalize_unpruned, R2 finalize_pruned, R3 human-readable
//! witness map, R4 decode.

use crate::engine::{guard, panic_class, Ctx, Out, PropDef};
use crate::reference::tyval::*;
use crate::space::dag::CNode;
use simplicity::dag::{DagLike, InternalSharing};
use simplicity::human_encoding::Forest;
use simplicity::jet::{Core, CoreEnv};
use simplicity::node::{CoreConstructible, Inner, WitnessConstructible};
use simplicity::{types, BitIter, BitMachine, RedeemNode, Value};
use std::collections::HashMap;
use std::rc::Rc;
use std::sync::Arc;

pub static DEF: PropDef = PropDef {
    id: "C12",
    run,
    rule: "states = distinct (host program, witness position, candidate value, route) cases; transitions = finalisation/decoding calls judged (+ re-decode and execution of every accepted program); non-trivial = candidate value is not of the witness node's type",
    assumptions: &[
        "the witness node's type is forced by principal typing through a consumer expression that destructs the whole type; no type is pinned by hand",
        "SimpleFinalizer (documented as unchecked, not for production) is not a route",
    ],
    shards: (16, 64),
    budget_ms: (60_000, 180_000),
};

/// inspect_T : T -> 1, whose principal source type is exactly T
pub fn inspect<'b>(ctx: &types::Context<'b>, t: &RT) -> CNode<'b> {
    match t {
        RT::Unit => CNode::unit(ctx),
        RT::Sum(a, b) => {
            // comp (pair iden unit) (case (take inspect_a) (take inspect_b))
            let p = CNode::pair(&CNode::iden(ctx), &CNode::unit(ctx)).unwrap();
            let c = CNode::case(&CNode::take(&inspect(ctx, a)), &CNode::take(&inspect(ctx, b))).unwrap();
            CNode::comp(&p, &c).unwrap()
        }
        RT::Prod(a, b) => {
            let p = CNode::pair(&CNode::take(&inspect(ctx, a)), &CNode::drop_(&inspect(ctx, b))).unwrap();
            CNode::comp(&p, &CNode::unit(ctx)).unwrap()
        }
    }
}

#[derive(Clone, Copy, Debug, PartialEq, Eq)]
pub enum Pos {
    Executed,
    /// under the right branch of a case that is driven to the left
    Unexecuted,
}

/// host program 1 -> 1 with one witness node of type t
pub fn host_core<'b>(ctx: &types::Context<'b>, t: &RT, pos: Pos, wit: Option<Value>) -> CNode<'b> {
    let w = CNode::witness(ctx, wit);
    let used = CNode::comp(&w, &inspect(ctx, t)).unwrap();
    match pos {
        Pos::Executed => used,
        Pos::Unexecuted => {
            // comp (pair (injl unit) unit) (case unit (drop used))
            let sel = CNode::pair(&CNode::injl(&CNode::unit(ctx)), &CNode::unit(ctx)).unwrap();
            let cs = CNode::case(&CNode::unit(ctx), &CNode::drop_(&used)).unwrap();
            CNode::comp(&sel, &cs).unwrap()
        }
    }
}

/// The follower has type 2^2 * 1, which is none of the host types (two witness nodes of one type
/// holding one value would be a single shared node).
pub fn follower_value() -> Value {
    Value::product(Value::u2(3), Value::unit())
}

/// the follower's value: both bits set, so that a witness stream read at the wrong offset shows
pub fn follower_bits() -> Vec<bool> {
    vec![true, true]
}

/// The host of `host_core`, followed (in witness-stream order) by a second, always executed witness
/// node of type 2^2 * 1: a decoder that consumes the wrong number of bits for the first witness cannot
/// hide behind the zero padding at the end of the stream.
pub fn host<'b>(ctx: &types::Context<'b>, t: &RT, pos: Pos, wit: Option<Value>) -> CNode<'b> {
    let first = host_core(ctx, t, pos, wit);
    let w2 = CNode::witness(ctx, Some(follower_value()));
    let second = CNode::comp(&w2, &inspect(ctx, &RT::prod(&RT::word(1), &RT::unit()))).unwrap();
    CNode::comp(&CNode::pair(&first, &second).unwrap(), &CNode::unit(ctx)).unwrap()
}

fn host_types(thorough: bool) -> Vec<Rc<RT>> {
    let mut v = types_upto(if thorough { 3 } else { 2 });
    v.extend([RT::word(3), RT::word(5), RT::sum(&RT::unit(), &RT::word(3))]);
    v.extend(crate::reference::tyval::padding_flag_family(if thorough { 7 } else { 6 }));
    v
}

fn candidate_values(thorough: bool) -> Vec<(Rc<RT>, Rc<RV>)> {
    let mut v = vec![];
    for t in host_types(thorough) {
        let vals = if t.cardinality() <= 8 { values_of(&t, 8).0 } else { corner_values(&t) };
        for x in vals {
            v.push((t.clone(), x));
        }
    }
    v
}

#[derive(Clone, Copy, Debug, PartialEq, Eq)]
enum Route {
    FinalizeUnpruned,
    FinalizePruned,
    HumanMapUnpruned,
    HumanMapPruned,
    Decode,
}

/// what the oracle demands of an accepted program
fn check_accepted(p: &Arc<RedeemNode>, route: Route, out: &mut Out) -> Result<(), (String, String)> {
    for item in p.as_ref().post_order_iter::<InternalSharing>() {
        if let Inner::Witness(v) = item.node.inner() {
            if !v.is_of_type(&item.node.arrow().target) {
                return Err(("witness:ill-typed-accepted".into(), format!("route {route:?} returns a program whose witness value has type {} at a node with target type {}", v.ty(), item.node.arrow().target)));
            }
        }
    }
    out.transitions += 2;
    let (pb, wb) = p.to_vec_with_witness();
    match RedeemNode::decode::<_, _, Core>(BitIter::from(pb.as_slice()), BitIter::from(wb.as_slice())) {
        Ok(d) if d.ihr() == p.ihr() => {}
        Ok(_) => return Err(("witness:own-encoding-differs".into(), "program decodes to a different IHR".into())),
        Err(e) => return Err(("witness:own-encoding-rejected".into(), format!("the program's own serialisation does not decode: {e}"))),
    }
    let mut mac = BitMachine::for_program(p).map_err(|e| ("witness:limits".to_string(), e.to_string()))?;
    let _ = mac.exec(p, &CoreEnv::new());
    let (cells, frames, cap, _) = mac.verif_high_water();
    let allowance = p.bounds().extra_cells + p.arrow().source.bit_width() + p.arrow().target.bit_width();
    if cells > allowance || cells > cap || frames > p.bounds().extra_frames + 2 {
        return Err(("witness:machine-overrun".into(), format!("{cells} cells used, allowance {allowance}")));
    }
    Ok(())
}

fn run_route(t: &Rc<RT>, pos: Pos, vt: &Rc<RT>, v: &Rc<RV>, route: Route, out: &mut Out) -> Result<&'static str, (String, String)> {
    out.transitions += 1;
    let val = v.to_value(vt);
    let right = vt == t;
    let res: Result<Arc<RedeemNode>, String> = match route {
        Route::FinalizeUnpruned => types::Context::with_context(|ctx| host(&ctx, t, pos, Some(val.shallow_clone())).finalize_unpruned().map_err(|e| e.to_string())),
        Route::FinalizePruned => types::Context::with_context(|ctx| host(&ctx, t, pos, Some(val.shallow_clone())).finalize_pruned(&CoreEnv::new()).map_err(|e| e.to_string())),
        Route::HumanMapUnpruned | Route::HumanMapPruned => {
            // render the committed host, parse it back, attach the value by witness name
            let commit = types::Context::with_context(|ctx| host(&ctx, t, pos, None).finalize_types()).map_err(|e| ("host:types".to_string(), e.to_string()))?;
            let text = Forest::from_program(commit).string_serialize();
            // (a host whose rendering does not reparse is C17's subject, not C12's: route unavailable)
            let Ok(forest) = Forest::parse::<Core>(&text) else { return Ok("route-unavailable(host text does not reparse, see C17)") };
            let main = forest.roots().get("main").ok_or(("host:reparse".to_string(), "no main".to_string()))?;
            let mut names = vec![];
            for item in main.as_ref().post_order_iter::<InternalSharing>() {
                if let Inner::Witness(_) = item.node.inner() {
                    names.push(item.node.name().clone());
                }
            }
            if names.len() != 2 {
                return Err(("host:reparse".into(), format!("{} witness names", names.len())));
            }
            // post order: the witness under test, then the follower
            let mut map: HashMap<Arc<str>, Value> = HashMap::new();
            map.insert(names[0].clone(), val.shallow_clone());
            map.insert(names[1].clone(), follower_value());
            types::Context::with_context(|ctx| {
                let n = forest.to_witness_node(&ctx, &map).ok_or("no main".to_string())?;
                if route == Route::HumanMapUnpruned {
                    n.finalize_unpruned().map_err(|e| e.to_string())
                } else {
                    n.finalize_pruned(&CoreEnv::new()).map_err(|e| e.to_string())
                }
            })
        }
        Route::Decode => {
            // program bytes of the host (with a zero witness), witness stream = compact bits of the candidate
            let base = types::Context::with_context(|ctx| host(&ctx, t, pos, None).finalize_unpruned()).map_err(|e| ("host:finalize".to_string(), e.to_string()))?;
            let pb = base.to_vec_without_witness();
            let mut wbits = v.compact();
            wbits.extend(follower_bits());
            let wb = crate::reference::bits::bits_to_bytes(&wbits);
            RedeemNode::decode::<_, _, Core>(BitIter::from(pb.as_slice()), BitIter::from(wb.as_slice())).map_err(|e| e.to_string())
        }
    };
    match res {
        Err(_) => {
            // a right-typed value on the plain routes must be accepted (otherwise the check would be vacuous)
            if right && matches!(route, Route::FinalizeUnpruned | Route::HumanMapUnpruned | Route::Decode) {
                return Err(("witness:well-typed-rejected".into(), format!("route {route:?} rejects a value of exactly the node's type")));
            }
            Ok("rejected")
        }
        Ok(p) => {
            check_accepted(&p, route, out)?;
            Ok(if right { "accepted:well-typed" } else { "accepted:value-reinterpreted-or-pruned" })
        }
    }
}

/// The witness under test left unpopulated (`None` at construction, or its name missing from the
/// witness map): every route either reports an error or returns a program whose witness values all
/// have their node's type (the library fills in a value itself).
fn leg_absent(ctx: &Ctx, out: &mut Out, thorough: bool) {
    let leg = "absent";
    for t in host_types(thorough) {
        if !ctx.mine() {
            continue;
        }
        for pos in [Pos::Executed, Pos::Unexecuted] {
            for route in [Route::FinalizeUnpruned, Route::FinalizePruned, Route::HumanMapUnpruned, Route::HumanMapPruned] {
                let label = || format!("witness node type {t} ({pos:?}), no value supplied, route {route:?}");
                if !ctx.begin(leg, &label) {
                    continue;
                }
                out.evaluations += 1;
                out.states += 1;
                out.nontrivial += 1;
                out.transitions += 1;
                let r = guard(|| -> Result<&'static str, (String, String)> {
                    let res: Result<Arc<RedeemNode>, String> = match route {
                        Route::FinalizeUnpruned => types::Context::with_context(|ctx| host(&ctx, &t, pos, None).finalize_unpruned().map_err(|e| e.to_string())),
                        Route::FinalizePruned => types::Context::with_context(|ctx| host(&ctx, &t, pos, None).finalize_pruned(&CoreEnv::new()).map_err(|e| e.to_string())),
                        _ => {
                            let commit = types::Context::with_context(|ctx| host(&ctx, &t, pos, None).finalize_types()).map_err(|e| ("host:types".to_string(), e.to_string()))?;
                            let text = Forest::from_program(commit).string_serialize();
                            let Ok(forest) = Forest::parse::<Core>(&text) else { return Ok("route-unavailable(host text does not reparse, see C17)") };
                            let main = forest.roots().get("main").ok_or(("host:reparse".to_string(), "no main".to_string()))?;
                            // only the follower is given a value
                            let names: Vec<Arc<str>> = main.as_ref().post_order_iter::<InternalSharing>().filter(|i| matches!(i.node.inner(), Inner::Witness(_))).map(|i| i.node.name().clone()).collect();
                            if names.len() != 2 {
                                return Err(("host:reparse".into(), format!("{} witness names", names.len())));
                            }
                            let mut map: HashMap<Arc<str>, Value> = HashMap::new();
                            map.insert(names[1].clone(), follower_value());
                            types::Context::with_context(|ctx| {
                                let n = forest.to_witness_node(&ctx, &map).ok_or("no main".to_string())?;
                                if route == Route::HumanMapUnpruned {
                                    n.finalize_unpruned().map_err(|e| e.to_string())
                                } else {
                                    n.finalize_pruned(&CoreEnv::new()).map_err(|e| e.to_string())
                                }
                            })
                        }
                    };
                    match res {
                        Err(_) => Ok("absent:error"),
                        Ok(p) => {
                            check_accepted(&p, route, out)?;
                            Ok("absent:accepted(value filled in)")
                        }
                    }
                });
                match r {
                    Ok(Ok(o)) => {
                        out.outcome(o);
                        out.sample(leg, || (label(), o.to_string()));
                    }
                    Ok(Err((c, d))) => out.violation(&format!("{c}:{route:?}"), leg, label(), d),
                    Err(p) => out.violation(&format!("{}:{route:?}", panic_class(&p)), leg, label(), p),
                }
                ctx.end();
            }
        }
    }
}

fn run(ctx: &Ctx, out: &mut Out) {
    let leg = "routes";
    let thorough = ctx.tier == crate::engine::Tier::Thorough;
    leg_absent(ctx, out, thorough);
    let cands = candidate_values(thorough);
    for t in host_types(thorough) {
        for pos in [Pos::Executed, Pos::Unexecuted] {
            if !ctx.mine() {
                continue;
            }
            for (vt, v) in &cands {
                for route in [Route::FinalizeUnpruned, Route::FinalizePruned, Route::HumanMapUnpruned, Route::HumanMapPruned, Route::Decode] {
                    let label = || format!("witness node type {} ({pos:?}), candidate {} : {}, route {route:?}", t, v, vt);
                    if !ctx.begin(leg, &label) {
                        continue;
                    }
                    out.evaluations += 1;
                    out.states += 1;
                    if *vt != t {
                        out.nontrivial += 1;
                    }
                    match guard(|| run_route(&t, pos, vt, v, route, out)) {
                        Ok(Ok(o)) => {
                            out.outcome(o);
                            if *vt != t {
                                out.sample(leg, || (label(), o.to_string()));
                            }
                        }
                        Ok(Err((c, d))) => out.violation(&format!("{c}:{route:?}"), leg, label(), d),
                        // a panic downstream of an ill-typed value that was let through is the same
                        // defect as accepting it; a panic on a well-typed value is something else
                        Err(p) if *vt != t => out.violation(&format!("witness:ill-typed-value-panics:{route:?}"), leg, label(), p),
                        Err(p) => out.violation(&format!("{}:{route:?}", panic_class(&p)), leg, label(), p),
                    }
                    ctx.end();
                }
            }
        }
    }
}
