//! C14 - jet tables and foreign bindings match libsimplicity (finite sets, enumerated completely).

use crate::engine::{guard, panic_class, verif_dir, Ctx, Out, PropDef};
use crate::reference::bits::*;
use crate::reference::codec::*;
use crate::reference::cpipe::*;
use crate::reference::merkle::Merkle;
use crate::reference::tyval::RT;
use crate::space::dag::Fam;
use simplicity::jet::{Bitcoin, Core, Elements, Jet};
use simplicity::{BitIter, BitWriter, Cost};

pub static DEF: PropDef = PropDef {
    id: "C14",
    run,
    rule: "states = jets (368 + 471 + 428) + extern declarations; transitions = table look-ups / prototype comparisons judged; non-trivial = every jet and every extern item (each is a distinct table row)",
    assumptions: &[
        "C prototypes are taken from clang -ast-dump=json over the vendored sources with the crate's defines; jets-secp256k1.c is skipped (its jets are bound through the WRAP_ wrappers, which are covered)",
        "parameters are compared by arity and ABI class (bool, 8/16/32/64-bit integer with enums as 32-bit, data pointer, function pointer, struct by value); return types and statics are reported as notes only (the statement speaks of arity and parameter types)",
        "Bitcoin family: codes, names and type names only",
    ],
    shards: (8, 8),
    budget_ms: (300_000, 300_000),
};

fn code_bits(j: &dyn Jet) -> Vec<bool> {
    let mut sink: Vec<u8> = vec![];
    let n = {
        let mut w = BitWriter::new(&mut sink as &mut dyn std::io::Write);
        let n = j.encode(&mut w).unwrap();
        w.flush_all().unwrap();
        n
    };
    bytes_to_bits(&sink)[..n].to_vec()
}

fn family_tables<J: Jet + Copy + PartialEq + std::str::FromStr>(ctx: &Ctx, out: &mut Out, name: &str, all: &[J]) {
    let leg = "tables";
    if !ctx.mine() {
        return;
    }
    let codes: Vec<Vec<bool>> = all.iter().map(|j| code_bits(j)).collect();
    for (i, j) in all.iter().enumerate() {
        let label = || format!("{name}:{j}");
        if !ctx.begin(leg, &label) {
            continue;
        }
        out.evaluations += 1;
        out.states += 1;
        out.nontrivial += 1;
        out.transitions += 3;
        let r = guard(|| -> Result<(), (String, String)> {
            // encode -> decode, also with trailing garbage
            for garbage in [false, true] {
                let mut bits = codes[i].clone();
                bits.extend([garbage; 9]);
                let bytes = bits_to_bytes(&bits);
                let mut it = BitIter::from(bytes.as_slice());
                match J::decode(&mut it) {
                    Ok(d) if d == *j && it.n_total_read() == codes[i].len() => {}
                    Ok(d) => return Err(("jet:decode".into(), format!("code {} decodes to {d} consuming {} bits", bits_str(&codes[i]), it.n_total_read()))),
                    Err(e) => return Err(("jet:decode".into(), format!("code {} does not decode: {e}", bits_str(&codes[i])))),
                }
            }
            // prefix freeness against every other jet
            for (k, c) in codes.iter().enumerate() {
                if k != i && c.len() >= codes[i].len() && c[..codes[i].len()] == codes[i][..] {
                    return Err(("jet:prefix".into(), format!("code of {j} is a prefix of the code of {}", all[k])));
                }
            }
            // name round trip
            match J::parse(&j.to_string()) {
                Ok(p) if p == *j => {}
                _ => return Err(("jet:name".into(), format!("name `{j}` does not parse back"))),
            }
            if !matches!(j.to_string().parse::<J>(), Ok(p) if p == *j) {
                return Err(("jet:name".into(), format!("FromStr for `{j}` does not parse back")));
            }
            // type names expand and report a width
            let (s, t) = (j.source_ty(), j.target_ty());
            if s.to_final().bit_width() != s.to_bit_width() || t.to_final().bit_width() != t.to_bit_width() || s.tmr() != s.to_final().tmr() || t.tmr() != t.to_final().tmr() {
                return Err(("jet:typename".into(), "TypeName width/tmr disagree with the expanded type".into()));
            }
            Ok(())
        });
        match r {
            Ok(Ok(())) => {
                out.outcome("table-row:ok");
                out.sample(leg, || (label(), format!("code {} round-trips, is prefix-free, name parses", bits_str(&codes[i]))));
            }
            Ok(Err((c, d))) => out.violation(&c, leg, label(), d),
            Err(p) => out.violation(&panic_class(&p), leg, label(), p),
        }
        ctx.end();
    }
}

fn run(ctx: &Ctx, out: &mut Out) {
    family_tables::<Core>(ctx, out, "core", &Core::ALL);
    family_tables::<Elements>(ctx, out, "elements", &Elements::ALL);
    family_tables::<Bitcoin>(ctx, out, "bitcoin", &Bitcoin::ALL);
    leg_c_tables(ctx, out);
    leg_ffi(ctx, out);
}

/// Every Elements jet against the C tables; every Core jet against its Elements namesake.
fn leg_c_tables(ctx: &Ctx, out: &mut Out) {
    let leg = "c-tables";
    if !ctx.mine() {
        return;
    }
    let jets = JetCodes::new(Fam::Elements);
    let mut m = Merkle::default();
    for (i, j) in Elements::ALL.iter().enumerate() {
        let label = || format!("elements:{j}");
        if !ctx.begin(leg, &label) {
            continue;
        }
        out.evaluations += 1;
        out.states += 1;
        out.nontrivial += 1;
        out.transitions += 1;
        let r = guard(|| -> Result<(), (String, String)> {
            let bytes = bits_to_bytes(&ref_encode(&[WNode::Jet(i as u16)], &jets));
            let mut p = CProg::decode(&bytes).map_err(|c| ("c:decode".to_string(), format!("C decodeJet rejects the Rust code word: {}", err_name(c))))?;
            if p.len != 1 {
                return Err(("c:decode".into(), "C decoded more than one node".into()));
            }
            let ccmr = midstate_bytes(&p.node(0).cmr);
            if ccmr != j.cmr().to_byte_array() {
                return Err(("c:cmr".into(), format!("C {} Rust {}", hex(&ccmr), j.cmr())));
            }
            if Cost::from_milliweight(p.node(0).cost) != j.cost() {
                return Err(("c:cost".into(), format!("C {} Rust {}", p.node(0).cost, j.cost())));
            }
            p.infer().map_err(|c| ("c:infer".to_string(), err_name(c).to_string()))?;
            let (s, t) = p.types_of(0);
            let (cs, ct) = (p.ty(s), p.ty(t));
            let (rs, rt) = (j.source_ty().to_final(), j.target_ty().to_final());
            if midstate_bytes(&cs.type_merkle_root) != rs.tmr().to_byte_array() || midstate_bytes(&ct.type_merkle_root) != rt.tmr().to_byte_array() {
                return Err(("c:types".into(), format!("TMR of source/target differ (Rust {} -> {})", rs, rt)));
            }
            if cs.bit_size as usize != rs.bit_width() || ct.bit_size as usize != rt.bit_width() {
                return Err(("c:widths".into(), format!("C {} -> {} bits, Rust {} -> {}", cs.bit_size, ct.bit_size, rs.bit_width(), rt.bit_width())));
            }
            // from-scratch TMR as a third opinion
            if m.tmr(&RT::from_final(&rs)) != rs.tmr().to_byte_array() || m.tmr(&RT::from_final(&rt)) != rt.tmr().to_byte_array() {
                return Err(("tmr:scratch".into(), "TMR differs from tagged SHA-256 recomputed from scratch".into()));
            }
            Ok(())
        });
        match r {
            Ok(Ok(())) => {
                out.outcome("c-row:ok");
                out.sample(leg, || (label(), "CMR, cost, source/target TMR and widths equal the C tables".into()));
            }
            Ok(Err((c, d))) => out.violation(&c, leg, label(), d),
            Err(p) => out.violation(&panic_class(&p), leg, label(), p),
        }
        ctx.end();
    }
    // namesakes
    for j in Core::ALL.iter() {
        let label = || format!("core:{j} vs elements namesake");
        if !ctx.begin("namesake", &label) {
            continue;
        }
        out.evaluations += 1;
        out.states += 1;
        out.nontrivial += 1;
        out.transitions += 1;
        let e = Elements::ALL.iter().find(|e| e.to_string() == j.to_string());
        match e {
            None => out.violation("namesake:missing", "namesake", label(), "no Elements jet of that name".into()),
            Some(e) => {
                let (cc, ec) = (code_bits(j), code_bits(e));
                if j.source_ty() != e.source_ty() || j.target_ty() != e.target_ty() {
                    out.violation("namesake:types", "namesake", label(), "types differ".into());
                } else if ec.len() != cc.len() + 1 || ec[0] || ec[1..] != cc[..] {
                    out.violation("namesake:code", "namesake", label(), format!("core code {} elements code {}", bits_str(&cc), bits_str(&ec)));
                } else {
                    out.outcome("namesake:ok");
                    out.sample("namesake", || (label(), format!("same types; elements code = 0 ++ {}", bits_str(&cc))));
                }
            }
        }
        ctx.end();
    }
}

fn leg_ffi(ctx: &Ctx, out: &mut Out) {
    let leg = "ffi";
    if !ctx.mine() {
        return;
    }
    if !ctx.begin(leg, &|| "ffi-audit".to_string()) {
        return;
    }
    let script = verif_dir().join("tools").join("ffi_audit.py");
    let res = std::process::Command::new("python3").arg(&script).arg("/repo").output();
    ctx.end();
    let outp = match res {
        Ok(o) if o.status.success() => o.stdout,
        Ok(o) => {
            panic!("ffi_audit.py failed (machinery error, no verdict): {}", String::from_utf8_lossy(&o.stderr));
        }
        Err(e) => {
            panic!("cannot run ffi_audit.py (machinery error, no verdict): {e}");
        }
    };
    let j: serde_json::Value = match serde_json::from_slice(&outp) {
        Ok(j) => j,
        Err(e) => {
            panic!("FFI audit output unreadable (machinery error, no verdict): {e}");
        }
    };
    for e in j["errors"].as_array().cloned().unwrap_or_default() {
        out.note(format!("ffi audit: {}", e.as_str().unwrap_or("")));
    }
    let items = j["items"].as_array().cloned().unwrap_or_default();
    let mism = j["mismatches"].as_array().cloned().unwrap_or_default();
    for it in &items {
        out.evaluations += 1;
        out.states += 1;
        out.transitions += 1;
        out.nontrivial += 1;
        let sym = it["symbol"].as_str().unwrap_or("");
        let mine: Vec<&serde_json::Value> = mism.iter().filter(|m| m["symbol"] == sym).collect();
        let label = format!("{} {} ({})", it["kind"].as_str().unwrap_or(""), sym, it["file"].as_str().unwrap_or(""));
        if mine.is_empty() {
            out.outcome("ffi:ok");
            if it["kind"] == "fn" {
                out.sample(leg, || (label.clone(), format!("Rust {:?} == C {:?}", it["rust_classes"], it["c_classes"])));
            }
        }
        for m in mine {
            let class = m["class"].as_str().unwrap_or("ffi:?");
            let detail = m["detail"].as_str().unwrap_or("").to_string();
            match class {
                // the statement covers arity and parameter types of functions
                "ffi:arity" | "ffi:param-type" | "ffi:no-c-prototype" => out.violation(&format!("{class}:{sym}"), leg, label.clone(), detail),
                _ => {
                    out.outcome("ffi:note(return-or-static)");
                    out.note(format!("{class} {sym}: {detail}"));
                }
            }
        }
    }
    if items.len() < 400 {
        out.violation("ffi:audit-incomplete", leg, "ffi-audit".into(), format!("only {} extern items found", items.len()));
    }
}
