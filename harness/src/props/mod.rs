use crate::engine::PropDef;

pub mod c01;
pub mod c02;
pub mod c03;
pub mod c04;
pub mod c05;
pub mod c06;
pub mod c07;
pub mod c08;
pub mod c09;
pub mod c10;
pub mod c11;
pub mod c12;
pub mod c13;
pub mod c14;
pub mod c15;
pub mod c16;
pub mod c17;
pub mod c18;
pub mod c19;
pub mod c20;

pub static ALL: &[&PropDef] = &[&c01::DEF, &c02::DEF, &c03::DEF, &c04::DEF, &c05::DEF, &c06::DEF, &c07::DEF, &c08::DEF, &c09::DEF, &c10::DEF, &c11::DEF, &c12::DEF, &c13::DEF, &c14::DEF, &c15::DEF, &c16::DEF, &c17::DEF, &c18::DEF, &c19::DEF, &c20::DEF];

pub fn find(id: &str) -> Option<&'static PropDef> {
    ALL.iter().copied().find(|p| p.id.eq_ignore_ascii_case(id))
}
