//! C11 - value equality, ordering and hashing are semantic.
//! All ordered pairs of (value, history) within each type and across types; triples for
//! transitivity at the smaller bound.

use crate::engine::{guard, panic_class, Ctx, Out, PropDef, Tier};
use crate::reference::tyval::*;
use crate::space::values::*;
use simplicity::{Value, Word};
use std::cmp::Ordering;
use std::hash::{Hash, Hasher};
use std::rc::Rc;

pub static DEF: PropDef = PropDef {
    id: "C11",
    run,
    rule: "states = distinct (type, value, history) productions; transitions = ordered pairs (and triples) compared; non-trivial = pairs in which at least one side comes from a dirty-buffer / offset history",
    assumptions: &["hash compared through std's DefaultHasher with its fixed default keys (SipHash-1-3, keys 0)"],
    shards: (16, 64),
    budget_ms: (60_000, 180_000),
};

fn h(v: &Value) -> u64 {
    #[allow(deprecated)]
    let mut s = std::hash::SipHasher::new();
    v.hash(&mut s);
    s.finish()
}

struct Item {
    ti: usize,
    v: Rc<RV>,
    hist: Hist,
    x: Value,
    dirty: bool,
}

fn run(ctx: &Ctx, out: &mut Out) {
    let types: Vec<Rc<RT>> = {
        let mut v = types_upto(ctx.tier.pick(2, 5));
        v.extend([RT::word(2), RT::word(3), RT::sum(&RT::unit(), &RT::word(2)), RT::sum(&RT::word(2), &RT::bit()), RT::prod(&RT::sum(&RT::unit(), &RT::bit()), &RT::bit())]);
        // (the extras may already be among the enumerated types: one index per type)
        let mut seen = std::collections::HashSet::new();
        v.retain(|t| seen.insert(t.clone()));
        v
    };
    let hists = all_hists();
    let cap = ctx.tier.pick(24, 64);
    // productions per type
    let mut items: Vec<Item> = vec![];
    for (ti, t) in types.iter().enumerate() {
        let mut vals = if t.cardinality() <= cap as u128 { values_of(t, cap).0 } else { corner_values(t) };
        if t.cardinality() > cap as u128 {
            out.cap(format!("type {t}: corner values only"));
            // plus neighbours so that order is exercised
            vals.extend(values_of(t, 8).0);
            vals.sort();
            vals.dedup();
        }
        for v in &vals {
            for hist in &hists {
                if let Ok(Ok(Some(x))) = guard(|| produce(t, v, hist)) {
                    let dirty = !matches!(hist, Hist::Ctor | Hist::Compact | Hist::Padded(false) | Hist::Zero);
                    items.push(Item { ti, v: v.clone(), hist: hist.clone(), x, dirty });
                }
            }
        }
    }
    out.states = if ctx.shard == 0 { items.len() as u64 } else { 0 };
    let leg = "pairs";
    let lab = |a: &Item, b: &Item| format!("a=[{} : {} via {:?}] b=[{} : {} via {:?}]", a.v, types[a.ti], a.hist, b.v, types[b.ti], b.hist);
    for (i, a) in items.iter().enumerate() {
        if !ctx.mine() {
            continue;
        }
        for b in items.iter() {
            // within a type: all pairs; across types: only constructor-built representatives
            if a.ti != b.ti && !(matches!(a.hist, Hist::Ctor) && matches!(b.hist, Hist::Ctor | Hist::SubProdR(3))) {
                continue;
            }
            if !ctx.begin(leg, &|| lab(a, b)) {
                continue;
            }
            out.evaluations += 1;
            out.transitions += 1;
            if a.dirty || b.dirty {
                out.nontrivial += 1;
            }
            let r = guard(|| {
                let same = a.ti == b.ti && a.v == b.v;
                let eq = a.x == b.x;
                let c = a.x.cmp(&b.x);
                let c2 = b.x.cmp(&a.x);
                let pc = a.x.partial_cmp(&b.x);
                let (ha, hb) = (h(&a.x), h(&b.x));
                if eq != same {
                    return Some(("eq:not-semantic", format!("a == b is {eq}, denotations {}", if same { "equal" } else { "differ" })));
                }
                if (c == Ordering::Equal) != same {
                    return Some(("ord:equal-inconsistent", format!("cmp = {c:?} but denotations {}", if same { "equal" } else { "differ" })));
                }
                if c2 != c.reverse() {
                    return Some(("ord:antisymmetry", format!("cmp(a,b) = {c:?}, cmp(b,a) = {c2:?}")));
                }
                if pc != Some(c) {
                    return Some(("ord:partial", "partial_cmp disagrees with cmp".into()));
                }
                if same && ha != hb {
                    return Some(("hash:not-semantic", "equal values hash differently".into()));
                }
                // words delegate to values
                if let (Some(wa), Some(wb)) = (a.x.to_word(), b.x.to_word()) {
                    let wsame = same;
                    if (wa == wb) != wsame || (wa.cmp(&wb) == Ordering::Equal) != wsame {
                        return Some(("word:eq", "Word equality/ordering not semantic".into()));
                    }
                    let hw = |w: &Word| {
                        #[allow(deprecated)]
                        let mut s = std::hash::SipHasher::new();
                        w.hash(&mut s);
                        s.finish()
                    };
                    if wsame && hw(&wa) != hw(&wb) {
                        return Some(("word:hash", "equal words hash differently".into()));
                    }
                }
                None
            });
            match r {
                Ok(None) => {
                    out.outcome(if a.ti == b.ti && a.v == b.v { "equal-pair" } else { "unequal-pair" });
                    out.sample(leg, || (lab(a, b), "==, cmp, hash consistent with denotation".into()));
                }
                Ok(Some((class, d))) => out.violation(class, leg, lab(a, b), d),
                Err(p) => out.violation(&panic_class(&p), leg, lab(a, b), p),
            }
            ctx.end();
        }
        // transitivity: triples within the same type (bounded)
        if ctx.tier == Tier::Thorough || items.len() < 4000 {
            let same_ty: Vec<&Item> = items.iter().filter(|b| b.ti == a.ti).collect();
            if same_ty.len() <= ctx.tier.pick(60, 120) {
                let leg3 = "triples";
                for b in &same_ty {
                    let ab = a.x.cmp(&b.x);
                    for c in &same_ty {
                        out.transitions += 1;
                        let bc = b.x.cmp(&c.x);
                        let ac = a.x.cmp(&c.x);
                        let okay = match (ab, bc) {
                            (Ordering::Less, Ordering::Less) | (Ordering::Less, Ordering::Equal) | (Ordering::Equal, Ordering::Less) => ac == Ordering::Less,
                            (Ordering::Greater, Ordering::Greater) | (Ordering::Greater, Ordering::Equal) | (Ordering::Equal, Ordering::Greater) => ac == Ordering::Greater,
                            (Ordering::Equal, Ordering::Equal) => ac == Ordering::Equal,
                            _ => true,
                        };
                        if !okay {
                            out.violation("ord:transitivity", leg3, format!("{} ; c=[{} via {:?}]", lab(a, b), c.v, c.hist), format!("a?b {ab:?}, b?c {bc:?}, a?c {ac:?}"));
                        }
                    }
                }
                out.evaluations += 1;
            }
        }
        let _ = i;
    }
    leg_siblings(ctx, out, &types, cap);
}

/// what `==`, `cmp`, `partial_cmp` and `hash` must say about two values of one type
fn judge(ax: &Value, bx: &Value, same: bool) -> Option<(&'static str, String)> {
    let eq = ax == bx;
    let c = ax.cmp(bx);
    let c2 = bx.cmp(ax);
    if eq != same {
        return Some(("eq:not-semantic", format!("a == b is {eq}, denotations {}", if same { "equal" } else { "differ" })));
    }
    if (c == Ordering::Equal) != same {
        return Some(("ord:equal-inconsistent", format!("cmp = {c:?} but denotations {}", if same { "equal" } else { "differ" })));
    }
    if c2 != c.reverse() {
        return Some(("ord:antisymmetry", format!("cmp(a,b) = {c:?}, cmp(b,a) = {c2:?}")));
    }
    if ax.partial_cmp(bx) != Some(c) {
        return Some(("ord:partial", "partial_cmp disagrees with cmp".into()));
    }
    if same && h(ax) != h(bx) {
        return Some(("hash:not-semantic", "equal values hash differently".into()));
    }
    None
}

/// Sub-values cut out of ONE parent value: they share the parent's buffer and differ only in their
/// offset into it (independently produced values never share a buffer). Parents (a, b) : T * T and
/// (a, (b, a)) : T * (T * T), built by constructor, from compact bits and from padded bits; every
/// pair of siblings is compared with each other and with a constructor-built copy.
fn leg_siblings(ctx: &Ctx, out: &mut Out, types: &[Rc<RT>], cap: usize) {
    use simplicity::BitIter;
    let leg = "siblings";
    for t in types {
        if t.cardinality() > cap as u128 {
            continue;
        }
        let vals = values_of(t, cap).0;
        for a in &vals {
            if !ctx.mine() {
                continue;
            }
            for b in &vals {
                let pt2 = RT::prod(t, t);
                let pt3 = RT::prod(t, &pt2);
                let p2 = RV::pair(a, b);
                let p3 = RV::pair(a, &RV::pair(b, a));
                for how in ["ctor", "compact", "padded"] {
                    let label = || format!("siblings of ({a}, {b}) : {t} * {t} and of ({a}, ({b}, {a})), parent via {how}");
                    if !ctx.begin(leg, &label) {
                        continue;
                    }
                    out.evaluations += 1;
                    out.states += 1;
                    out.nontrivial += 1;
                    let r = guard(|| -> Result<Option<(&'static str, String)>, String> {
                        let mk = |v: &Rc<RV>, ty: &Rc<RT>| -> Result<Value, String> {
                            Ok(match how {
                                "ctor" => v.to_value(ty),
                                "compact" => {
                                    let bytes = crate::reference::bits::bits_to_bytes(&v.compact());
                                    Value::from_compact_bits(&mut BitIter::from(bytes.as_slice()), &ty.to_final()).map_err(|e| e.to_string())?
                                }
                                _ => {
                                    let bytes = crate::reference::bits::bits_to_bytes(&v.padded_fill(ty, false));
                                    Value::from_padded_bits(&mut BitIter::from(bytes.as_slice()), &ty.to_final()).map_err(|e| e.to_string())?
                                }
                            })
                        };
                        let par2 = mk(&p2, &pt2)?;
                        let par3 = mk(&p3, &pt3)?;
                        let (l2, r2) = par2.as_ref().as_product().ok_or("as_product None")?;
                        let (l3, rest) = par3.as_ref().as_product().ok_or("as_product None")?;
                        let (m3, r3) = rest.as_product().ok_or("as_product None")?;
                        // (value, denotation)
                        let sibs: Vec<(Value, &Rc<RV>)> = vec![(l2.to_value(), a), (r2.to_value(), b), (l3.to_value(), a), (m3.to_value(), b), (r3.to_value(), a), (a.to_value(t), a), (b.to_value(t), b)];
                        for (x, dx) in &sibs {
                            if RV::from_value(x).ok().as_ref() != Some(*dx) {
                                return Ok(Some(("sub:denotation", format!("a sub-value of the parent denotes {:?}, expected {dx}", RV::from_value(x).map(|v| v.to_string())))));
                            }
                            for (y, dy) in &sibs {
                                out.transitions += 1;
                                if let Some((c, d)) = judge(x, y, dx == dy) {
                                    return Ok(Some((c, format!("{d} (comparing sub-values denoting {dx} and {dy})"))));
                                }
                            }
                        }
                        Ok(None)
                    });
                    match r {
                        Ok(Ok(None)) => {
                            out.outcome("siblings:consistent");
                            out.sample(leg, || (label(), "==, cmp, hash of all sibling pairs consistent with denotation".into()));
                        }
                        Ok(Ok(Some((c, d)))) => out.violation(c, leg, label(), d),
                        Ok(Err(e)) => out.violation("siblings:build", leg, label(), e),
                        Err(p) => out.violation(&panic_class(&p), leg, label(), p),
                    }
                    ctx.end();
                }
            }
        }
    }
}
