//! C11 - value equality, ordering and hashing are semantic.
//! All ordered pairs of (value, history) within each type and across types; triples for
//! transitivity at the smaller bound.

use crate::engine::{guard, panic_class, Ctx, Out, PropDef, Tier};
use crate::reference::tyval::*;
use crate::space::values::*;
use simplicity::{Value, Word};
use std::cmp::Ordering;
use std::hash::{Hash, Hasher};
use std::rc::Rc;

pub static DEF: PropDef = PropDef {
    id: "C11",
    run,
    rule: "states = distinct (type, value, history) productions; transitions = ordered pairs (and triples) compared; non-trivial = pairs in which at least one side comes from a dirty-buffer / offset history",
    assumptions: &["hash compared through std's DefaultHasher with its fixed default keys (SipHash-1-3, keys 0)"],
    shards: (16, 64),
    budget_ms: (20_000, 60_000),
};

fn h(v: &Value) -> u64 {
    #[allow(deprecated)]
    let mut s = std::hash::SipHasher::new();
    v.hash(&mut s);
    s.finish()
}

struct Item {
    ti: usize,
    v: Rc<RV>,
    hist: Hist,
    x: Value,
    dirty: bool,
}

fn run(ctx: &Ctx, out: &mut Out) {
    let types: Vec<Rc<RT>> = {
        let mut v = types_upto(ctx.tier.pick(2, 3));
        v.extend([RT::word(2), RT::word(3), RT::sum(&RT::unit(), &RT::word(2)), RT::sum(&RT::word(2), &RT::bit()), RT::prod(&RT::sum(&RT::unit(), &RT::bit()), &RT::bit())]);
        v
    };
    let hists = all_hists();
    let cap = ctx.tier.pick(24, 64);
    // productions per type
    let mut items: Vec<Item> = vec![];
    for (ti, t) in types.iter().enumerate() {
        let mut vals = if t.cardinality() <= cap as u128 { values_of(t, cap).0 } else { corner_values(t) };
        if t.cardinality() > cap as u128 {
            out.cap(format!("type {t}: corner values only"));
            // plus neighbours so that order is exercised
            vals.extend(values_of(t, 8).0);
            vals.sort();
            vals.dedup();
        }
        for v in &vals {
            for hist in &hists {
                if let Ok(Ok(Some(x))) = guard(|| produce(t, v, hist)) {
                    let dirty = !matches!(hist, Hist::Ctor | Hist::Compact | Hist::Padded(false) | Hist::Zero);
                    items.push(Item { ti, v: v.clone(), hist: hist.clone(), x, dirty });
                }
            }
        }
    }
    out.states = if ctx.shard == 0 { items.len() as u64 } else { 0 };
    let leg = "pairs";
    let lab = |a: &Item, b: &Item| format!("a=[{} : {} via {:?}] b=[{} : {} via {:?}]", a.v, types[a.ti], a.hist, b.v, types[b.ti], b.hist);
    for (i, a) in items.iter().enumerate() {
        if !ctx.mine() {
            continue;
        }
        for b in items.iter() {
            // within a type: all pairs; across types: only constructor-built representatives
            if a.ti != b.ti && !(matches!(a.hist, Hist::Ctor) && matches!(b.hist, Hist::Ctor | Hist::SubProdR(3))) {
                continue;
            }
            if !ctx.begin(leg, &|| lab(a, b)) {
                continue;
            }
            out.evaluations += 1;
            out.transitions += 1;
            if a.dirty || b.dirty {
                out.nontrivial += 1;
            }
            let r = guard(|| {
                let same = a.ti == b.ti && a.v == b.v;
                let eq = a.x == b.x;
                let c = a.x.cmp(&b.x);
                let c2 = b.x.cmp(&a.x);
                let pc = a.x.partial_cmp(&b.x);
                let (ha, hb) = (h(&a.x), h(&b.x));
                if eq != same {
                    return Some(("eq:not-semantic", format!("a == b is {eq}, denotations {}", if same { "equal" } else { "differ" })));
                }
                if (c == Ordering::Equal) != same {
                    return Some(("ord:equal-inconsistent", format!("cmp = {c:?} but denotations {}", if same { "equal" } else { "differ" })));
                }
                if c2 != c.reverse() {
                    return Some(("ord:antisymmetry", format!("cmp(a,b) = {c:?}, cmp(b,a) = {c2:?}")));
                }
                if pc != Some(c) {
                    return Some(("ord:partial", "partial_cmp disagrees with cmp".into()));
                }
                if same && ha != hb {
                    return Some(("hash:not-semantic", "equal values hash differently".into()));
                }
                // words delegate to values
                if let (Some(wa), Some(wb)) = (a.x.to_word(), b.x.to_word()) {
                    let wsame = same;
                    if (wa == wb) != wsame || (wa.cmp(&wb) == Ordering::Equal) != wsame {
                        return Some(("word:eq", "Word equality/ordering not semantic".into()));
                    }
                    let hw = |w: &Word| {
                        #[allow(deprecated)]
                        let mut s = std::hash::SipHasher::new();
                        w.hash(&mut s);
                        s.finish()
                    };
                    if wsame && hw(&wa) != hw(&wb) {
                        return Some(("word:hash", "equal words hash differently".into()));
                    }
                }
                None
            });
            match r {
                Ok(None) => {
                    out.outcome(if a.ti == b.ti && a.v == b.v { "equal-pair" } else { "unequal-pair" });
                    out.sample(leg, || (lab(a, b), "==, cmp, hash consistent with denotation".into()));
                }
                Ok(Some((class, d))) => out.violation(class, leg, lab(a, b), d),
                Err(p) => out.violation(&panic_class(&p), leg, lab(a, b), p),
            }
            ctx.end();
        }
        // transitivity: triples within the same type (bounded)
        if ctx.tier == Tier::Thorough || items.len() < 4000 {
            let same_ty: Vec<&Item> = items.iter().filter(|b| b.ti == a.ti).collect();
            if same_ty.len() <= ctx.tier.pick(60, 120) {
                let leg3 = "triples";
                for b in &same_ty {
                    let ab = a.x.cmp(&b.x);
                    for c in &same_ty {
                        out.transitions += 1;
                        let bc = b.x.cmp(&c.x);
                        let ac = a.x.cmp(&c.x);
                        let okay = match (ab, bc) {
                            (Ordering::Less, Ordering::Less) | (Ordering::Less, Ordering::Equal) | (Ordering::Equal, Ordering::Less) => ac == Ordering::Less,
                            (Ordering::Greater, Ordering::Greater) | (Ordering::Greater, Ordering::Equal) | (Ordering::Equal, Ordering::Greater) => ac == Ordering::Greater,
                            (Ordering::Equal, Ordering::Equal) => ac == Ordering::Equal,
                            _ => true,
                        };
                        if !okay {
                            out.violation("ord:transitivity", leg3, format!("{} ; c=[{} via {:?}]", lab(a, b), c.v, c.hist), format!("a?b {ab:?}, b?c {bc:?}, a?c {ac:?}"));
                        }
                    }
                }
                out.evaluations += 1;
            }
        }
        let _ = i;
    }
}
