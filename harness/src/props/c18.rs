//! C18 - DAG iteration visits every node once, children first, with true indices.
//! Space: all pointer DAGs with <= n nodes and out-degree <= 2 (harness type implementing the
//! public DagLike) x {NoSharing, InternalSharing, every congruence as a class-sharing tracker};
//! plus real CommitNode/RedeemNode DAGs with the real MaxSharing. Oracle: recursive
//! first-occurrence post-order with memo on the sharing class.

use crate::engine::{guard, panic_class, Ctx, Out, PropDef, Tier};
use crate::space::dag::*;
use simplicity::dag::{Dag as LDag, DagLike, InternalSharing, MaxSharing, NoSharing, PostOrderIterItem, SharingTracker};
use simplicity::node::{Commit, Redeem};
use simplicity::types;
use std::cell::RefCell;
use std::collections::HashMap;
use std::sync::Arc;

pub static DEF: PropDef = PropDef {
    id: "C18",
    run,
    rule: "states = distinct (DAG shape, sharing policy) pairs; transitions = iterator steps compared with the reference (post-order, rtl, pre-order, verbose pre-order, is_shared_as); non-trivial = shape has a shared node or the policy merges two distinct objects",
    assumptions: &[
        "class-sharing policies range over congruences only (equivalent nodes have the same arity and equivalent children); other partitions have no defined expected behaviour",
        "pre-order is checked for: same set as post-order, root first, every other item preceded by one of its parents",
    ],
    shards: (16, 64),
    budget_ms: (60_000, 180_000),
};

#[derive(Debug)]
struct GN {
    id: usize,
    ar: usize,
    l: usize,
    r: usize,
}

#[derive(Clone, Copy, Debug)]
struct G<'a> {
    g: &'a [GN],
    i: usize,
}

impl<'a> DagLike for G<'a> {
    type Node = GN;
    fn data(&self) -> &GN {
        &self.g[self.i]
    }
    fn as_dag_node(&self) -> LDag<Self> {
        let n = &self.g[self.i];
        match n.ar {
            0 => LDag::Nullary,
            1 => LDag::Unary(G { g: self.g, i: n.l }),
            _ => LDag::Binary(G { g: self.g, i: n.l }, G { g: self.g, i: n.r }),
        }
    }
}

thread_local! {
    static CLASSES: RefCell<Vec<usize>> = const { RefCell::new(vec![]) };
}

/// Abstract MaxSharing: shares by an externally given class id.
#[derive(Clone, Debug)]
struct ClassSharing {
    class: Vec<usize>,
    map: HashMap<usize, usize>,
}
impl Default for ClassSharing {
    fn default() -> Self {
        ClassSharing { class: CLASSES.with(|c| c.borrow().clone()), map: HashMap::new() }
    }
}
impl<D: DagLike<Node = GN>> SharingTracker<D> for ClassSharing {
    fn record(&mut self, d: &D, index: usize) -> Option<usize> {
        let c = self.class[d.data().id];
        match self.map.get(&c) {
            Some(i) => Some(*i),
            None => {
                self.map.insert(c, index);
                None
            }
        }
    }
    fn seen_before(&self, d: &D) -> Option<usize> {
        self.map.get(&self.class[d.data().id]).copied()
    }
}

#[derive(Clone, Debug, PartialEq, Eq)]
struct Item {
    node: usize,
    index: usize,
    li: Option<usize>,
    ri: Option<usize>,
}

/// class: None = no sharing at all; Some(f) = class id per node
fn ref_post_order(g: &[GN], root: usize, class: Option<&[Option<usize>]>, mirror: bool) -> Vec<Item> {
    fn go(g: &[GN], i: usize, class: Option<&[Option<usize>]>, mirror: bool, memo: &mut HashMap<usize, usize>, out: &mut Vec<Item>) -> usize {
        if let Some(Some(ci)) = class.map(|c| c[i]) {
            if let Some(ix) = memo.get(&ci) {
                return *ix;
            }
        }
        let n = &g[i];
        let (mut li, mut ri) = (None, None);
        match n.ar {
            0 => {}
            1 => li = Some(go(g, n.l, class, mirror, memo, out)),
            _ => {
                if mirror {
                    ri = Some(go(g, n.r, class, mirror, memo, out));
                    li = Some(go(g, n.l, class, mirror, memo, out));
                } else {
                    li = Some(go(g, n.l, class, mirror, memo, out));
                    ri = Some(go(g, n.r, class, mirror, memo, out));
                }
            }
        }
        let ix = out.len();
        out.push(Item { node: i, index: ix, li, ri });
        if let Some(Some(ci)) = class.map(|c| c[i]) {
            memo.insert(ci, ix);
        }
        ix
    }
    let mut out = vec![];
    go(g, root, class, mirror, &mut HashMap::new(), &mut out);
    out
}

fn lib_items<'a, I: Iterator<Item = PostOrderIterItem<G<'a>>>>(it: I, limit: usize) -> Vec<Item> {
    it.take(limit).map(|d| Item { node: d.node.i, index: d.index, li: d.left_index, ri: d.right_index }).collect()
}

fn first_diff(a: &[Item], b: &[Item]) -> String {
    for k in 0..a.len().max(b.len()) {
        if a.get(k) != b.get(k) {
            return format!("step {k}: library yields {:?}, reference {:?}", a.get(k), b.get(k));
        }
    }
    "equal".into()
}

fn partitions(n: usize) -> Vec<Vec<usize>> {
    // restricted growth strings
    let mut res = vec![];
    fn rec(i: usize, n: usize, cur: &mut Vec<usize>, maxc: usize, res: &mut Vec<Vec<usize>>) {
        if i == n {
            res.push(cur.clone());
            return;
        }
        for c in 0..=maxc {
            cur.push(c);
            rec(i + 1, n, cur, maxc.max(c + 1), res);
            cur.pop();
        }
    }
    rec(0, n, &mut vec![], 0, &mut res);
    res
}

fn is_congruence(g: &[GN], p: &[usize]) -> bool {
    for a in 0..g.len() {
        for b in 0..a {
            if p[a] == p[b] {
                let (x, y) = (&g[a], &g[b]);
                if x.ar != y.ar {
                    return false;
                }
                if x.ar >= 1 && p[x.l] != p[y.l] {
                    return false;
                }
                if x.ar == 2 && p[x.r] != p[y.r] {
                    return false;
                }
            }
        }
    }
    true
}

enum Policy<'a> {
    No,
    Internal,
    Class(&'a [usize]),
}

fn check_shape(g: &[GN], pol: &Policy, out: &mut Out) -> Result<(), (String, String)> {
    let root = g.len() - 1;
    let rg = G { g, i: root };
    let ident: Vec<Option<usize>> = (0..g.len()).map(Some).collect();
    let cvec: Vec<Option<usize>> = match pol {
        Policy::Class(c) => c.iter().map(|x| Some(*x)).collect(),
        _ => vec![],
    };
    let class: Option<&[Option<usize>]> = match pol {
        Policy::No => None,
        Policy::Internal => Some(&ident),
        Policy::Class(_) => Some(&cvec),
    };
    let want = ref_post_order(g, root, class, false);
    let want_rtl = ref_post_order(g, root, class, true);
    let limit = want.len() + 8;
    if let Policy::Class(c) = pol {
        CLASSES.with(|x| *x.borrow_mut() = c.to_vec());
    }
    // post-order (stepped: the sequences are compared item by item, first divergence reported)
    let got = match pol {
        Policy::No => lib_items(rg.post_order_iter::<NoSharing>(), limit),
        Policy::Internal => lib_items(rg.post_order_iter::<InternalSharing>(), limit),
        Policy::Class(_) => lib_items(rg.post_order_iter::<ClassSharing>(), limit),
    };
    out.transitions += got.len() as u64;
    if got != want {
        return Err(("post-order".into(), first_diff(&got, &want)));
    }
    // explicit tracker entry point
    if let Policy::Class(_) = pol {
        let got2 = lib_items(rg.post_order_iter_with_tracker(ClassSharing::default()), limit);
        if got2 != want {
            return Err(("post-order-with-tracker".into(), first_diff(&got2, &want)));
        }
    }
    // right-to-left
    let got = match pol {
        Policy::No => lib_items(rg.rtl_post_order_iter::<NoSharing>(), limit),
        Policy::Internal => lib_items(rg.rtl_post_order_iter::<InternalSharing>(), limit),
        Policy::Class(_) => lib_items(rg.rtl_post_order_iter::<ClassSharing>(), limit),
    };
    out.transitions += got.len() as u64;
    if got != want_rtl {
        return Err(("rtl-post-order".into(), first_diff(&got, &want_rtl)));
    }
    // pre-order
    let pre: Vec<usize> = match pol {
        Policy::No => rg.pre_order_iter::<NoSharing>().take(limit).map(|d| d.i).collect(),
        Policy::Internal => rg.pre_order_iter::<InternalSharing>().take(limit).map(|d| d.i).collect(),
        Policy::Class(_) => rg.pre_order_iter::<ClassSharing>().take(limit).map(|d| d.i).collect(),
    };
    out.transitions += pre.len() as u64;
    let cls = |i: usize| class.and_then(|c| c[i]);
    if pre.len() != want.len() {
        return Err(("pre-order".into(), format!("yields {} items, post-order {}", pre.len(), want.len())));
    }
    if class.is_some() {
        let mut a: Vec<usize> = pre.iter().map(|i| cls(*i).unwrap()).collect();
        let mut b: Vec<usize> = want.iter().map(|i| cls(i.node).unwrap()).collect();
        a.sort_unstable();
        b.sort_unstable();
        if a != b {
            return Err(("pre-order".into(), format!("yields classes {a:?}, post-order {b:?}")));
        }
    }
    if pre.first() != Some(&root) {
        return Err(("pre-order".into(), "root is not first".into()));
    }
    for (k, &i) in pre.iter().enumerate().skip(1) {
        let has_parent_before = pre[..k].iter().any(|&p| {
            let n = &g[p];
            let same = |c: usize| match class {
                Some(cl) => cl[c] == cl[i] && cl[c].is_some(),
                None => c == i,
            };
            (n.ar >= 1 && same(n.l)) || (n.ar == 2 && same(n.r))
        });
        if !has_parent_before {
            return Err(("pre-order".into(), format!("item {k} (node {i}) comes before all of its parents")));
        }
    }
    // verbose pre-order
    #[derive(Debug)]
    struct VItem {
        node: usize,
        parent: Option<usize>,
        index: usize,
        depth: usize,
        ncy: usize,
        complete: bool,
    }
    let vlimit = 3 * limit + 8;
    let vmap = |d: simplicity::dag::PreOrderIterItem<G>| VItem { node: d.node.i, parent: d.parent.map(|p| p.i), index: d.index, depth: d.depth, ncy: d.n_children_yielded, complete: d.is_complete };
    let ver: Vec<VItem> = match pol {
        Policy::No => rg.verbose_pre_order_iter::<NoSharing>(None).take(vlimit).map(vmap).collect(),
        Policy::Internal => rg.verbose_pre_order_iter::<InternalSharing>(None).take(vlimit).map(vmap).collect(),
        Policy::Class(_) => rg.verbose_pre_order_iter::<ClassSharing>(None).take(vlimit).map(vmap).collect(),
    };
    out.transitions += ver.len() as u64;
    // first yields must be exactly the pre-order sequence with consecutive indices
    let firsts: Vec<&VItem> = ver.iter().filter(|v| v.ncy == 0).collect();
    if firsts.iter().map(|v| v.node).collect::<Vec<_>>() != pre {
        return Err(("verbose-pre-order".into(), "first visits differ from pre_order_iter".into()));
    }
    if firsts.iter().enumerate().any(|(k, v)| v.index != k) {
        return Err(("verbose-pre-order".into(), "indices of first visits are not consecutive".into()));
    }
    // per occurrence: exactly children+1 yields, counters 0..k, complete only on the last one;
    // occurrences are properly nested, so walk with a stack
    let mut stack: Vec<(usize, usize, usize, usize)> = vec![]; // node, index, depth, yields so far
    for v in &ver {
        if v.ncy == 0 {
            let want_depth = stack.len();
            let want_parent = stack.last().map(|s| s.0);
            if v.depth != want_depth || v.parent != want_parent {
                return Err(("verbose-pre-order".into(), format!("{v:?}: expected depth {want_depth}, parent {want_parent:?}")));
            }
            stack.push((v.node, v.index, v.depth, 0));
        }
        let top = match stack.last_mut() {
            Some(t) => t,
            None => return Err(("verbose-pre-order".into(), format!("{v:?}: yield outside any open node"))),
        };
        if top.0 != v.node || top.1 != v.index || top.2 != v.depth || top.3 != v.ncy {
            return Err(("verbose-pre-order".into(), format!("{v:?}: inconsistent with the open occurrence {top:?}")));
        }
        top.3 += 1;
        let k = g[v.node].ar;
        // a shared child that is skipped still counts as "yielded" for the counter
        if v.complete != (v.ncy == k) {
            return Err(("verbose-pre-order".into(), format!("{v:?}: is_complete wrong for a node with {k} children")));
        }
        if v.ncy == k {
            stack.pop();
        }
    }
    if !stack.is_empty() {
        return Err(("verbose-pre-order".into(), "iteration ended with open nodes".into()));
    }
    // depth-limited: nothing deeper than the limit
    let verd: Vec<VItem> = match pol {
        Policy::No => rg.verbose_pre_order_iter::<NoSharing>(Some(1)).take(vlimit).map(vmap).collect(),
        Policy::Internal => rg.verbose_pre_order_iter::<InternalSharing>(Some(1)).take(vlimit).map(vmap).collect(),
        Policy::Class(_) => rg.verbose_pre_order_iter::<ClassSharing>(Some(1)).take(vlimit).map(vmap).collect(),
    };
    if verd.iter().any(|v| v.depth > 1) || verd.first().map(|v| v.node) != Some(root) {
        return Err(("verbose-pre-order-depth".into(), "depth limit 1 not respected".into()));
    }
    // is_shared_as
    let reach = ref_post_order(g, root, Some(&ident), false);
    let expect = match pol {
        Policy::No => ref_post_order(g, root, None, false).len() == reach.len(),
        Policy::Internal => true,
        Policy::Class(c) => {
            let mut seen = HashMap::new();
            reach.iter().all(|it| seen.insert(c[it.node], it.node).is_none())
        }
    };
    let got = match pol {
        Policy::No => rg.is_shared_as::<NoSharing>(),
        Policy::Internal => rg.is_shared_as::<InternalSharing>(),
        Policy::Class(_) => rg.is_shared_as::<ClassSharing>(),
    };
    out.transitions += 1;
    if got != expect {
        return Err(("is_shared_as".into(), format!("returns {got}, expected {expect}")));
    }
    out.outcome(if expect { "shared-as:true" } else { "shared-as:false" });
    Ok(())
}

fn run(ctx: &Ctx, out: &mut Out) {
    leg_shapes(ctx, out);
    leg_real(ctx, out);
}

fn leg_shapes(ctx: &Ctx, out: &mut Out) {
    let leg = "shapes";
    let alpha = [Sym::Unit, Sym::InjL, Sym::Pair];
    let nmax = ctx.tier.pick(6, 8);
    let class_max = ctx.tier.pick(5, 6);
    for n in 1..=nmax {
        let parts: Vec<Vec<usize>> = if n <= class_max { partitions(n) } else { vec![] };
        if n > class_max {
            out.note(format!("class-sharing policies enumerated up to {class_max} nodes; {n}-node shapes with NoSharing/InternalSharing only"));
        }
        let mut shapes: Vec<Vec<GN>> = vec![];
        enum_dags(n, &alpha, 3, &mut || ctx.mine(), &mut |d| {
            shapes.push(d.iter().enumerate().map(|(id, x)| GN { id, ar: x.sym.arity(), l: x.l as usize, r: x.r as usize }).collect())
        });
        for g in &shapes {
            let desc = |g: &[GN]| g.iter().map(|x| match x.ar { 0 => "•".to_string(), 1 => format!("u({})", x.l), _ => format!("b({},{})", x.l, x.r) }).collect::<Vec<_>>().join(" ");
            let shared = {
                let mut refs = vec![0; g.len()];
                for x in g.iter() {
                    if x.ar >= 1 { refs[x.l] += 1 }
                    if x.ar == 2 { refs[x.r] += 1 }
                }
                refs.iter().any(|r| *r > 1)
            };
            let mut pols: Vec<(String, Policy)> = vec![("NoSharing".into(), Policy::No), ("InternalSharing".into(), Policy::Internal)];
            for p in &parts {
                if is_congruence(g, p) {
                    pols.push((format!("classes{p:?}"), Policy::Class(p)));
                }
            }
            for (pname, pol) in &pols {
                let label = || format!("shape=[{}] policy={}", desc(g), pname);
                if !ctx.begin(leg, &label) {
                    continue;
                }
                out.evaluations += 1;
                out.states += 1;
                let merges = matches!(pol, Policy::Class(p) if p.iter().collect::<std::collections::HashSet<_>>().len() < g.len());
                if shared || merges {
                    out.nontrivial += 1;
                }
                match guard(|| check_shape(g, pol, out)) {
                    Ok(Ok(())) => {
                        if shared {
                            out.sample(leg, || (label(), "post-order, rtl, pre-order, verbose pre-order and is_shared_as agree with the reference".into()))
                        }
                    }
                    Ok(Err((class, d))) => out.violation(&class, leg, label(), d),
                    Err(p) => out.violation(&panic_class(&p), leg, label(), p),
                }
                ctx.end();
            }
        }
    }
}

/// real node DAGs with the real MaxSharing (identity-hash sharing)
fn leg_real(ctx: &Ctx, out: &mut Out) {
    let leg = "real";
    let fam = Fam::Core;
    let alpha = vec![Sym::Iden, Sym::Unit, Sym::Witness, Sym::Word(0, 1), Sym::InjL, Sym::InjR, Sym::Take, Sym::Drop, Sym::Comp, Sym::Case, Sym::Pair];
    let nmax = ctx.tier.pick(4, 6);
    for n in 1..=nmax {
        let mut dags: Vec<Dag> = vec![];
        enum_dags(n, &alpha, 3, &mut || ctx.mine(), &mut |d| dags.push(d.to_vec()));
        for dag in &dags {
            let label = || render(dag, fam);
            if !ctx.begin(leg, &label) {
                continue;
            }
            let r = guard(|| -> Result<bool, (String, String)> {
                types::Context::with_context(|tctx| {
                    let built = match build(&tctx, dag, fam, &|_| None) {
                        Ok(b) => b,
                        Err(_) => return Ok(false),
                    };
                    let root = &built[dag.len() - 1];
                    let commit = match root.finalize_types() {
                        Ok(c) => c,
                        Err(_) => return Ok(false),
                    };
                    // commit: class = ihr if defined else unique
                    let ptr_items: Vec<_> = commit.as_ref().post_order_iter::<InternalSharing>().collect();
                    let mut key_of_ptr: HashMap<usize, Option<usize>> = HashMap::new();
                    let mut ihr_class: HashMap<[u8; 32], usize> = HashMap::new();
                    for (k, it) in ptr_items.iter().enumerate() {
                        let c = it.node.ihr().map(|h| *ihr_class.entry(h.to_byte_array()).or_insert(k));
                        key_of_ptr.insert(it.node as *const _ as usize, c);
                    }
                    // reference post-order on the pointer DAG with class = key
                    let g: Vec<GN> = ptr_items.iter().enumerate().map(|(id, it)| GN { id, ar: usize::from(it.left_index.is_some()) + usize::from(it.right_index.is_some()), l: it.left_index.unwrap_or(0), r: it.right_index.unwrap_or(0) }).collect();
                    let classes: Vec<Option<usize>> = ptr_items.iter().map(|it| key_of_ptr[&(it.node as *const _ as usize)]).collect();
                    let ident: Vec<Option<usize>> = (0..g.len()).map(Some).collect();
                    let want = ref_post_order(&g, g.len() - 1, Some(&classes), false);
                    let got: Vec<Item> = commit.as_ref().post_order_iter::<MaxSharing<Commit>>().map(|d| {
                        let idx = ptr_items.iter().position(|p| std::ptr::eq(p.node, d.node)).unwrap();
                        Item { node: idx, index: d.index, li: d.left_index, ri: d.right_index }
                    }).collect();
                    if got != want {
                        return Err(("real:commit-maxsharing".into(), first_diff(&got, &want)));
                    }
                    // the same walk through an owned handle (its own SharingTracker impl), and right to left
                    let got_arc: Vec<Item> = Arc::clone(&commit).post_order_iter::<MaxSharing<Commit>>().map(|d| {
                        let idx = ptr_items.iter().position(|p| std::ptr::eq(p.node, Arc::as_ptr(&d.node))).unwrap();
                        Item { node: idx, index: d.index, li: d.left_index, ri: d.right_index }
                    }).collect();
                    if got_arc != want {
                        return Err(("real:commit-maxsharing-arc".into(), first_diff(&got_arc, &want)));
                    }
                    let want_rtl = ref_post_order(&g, g.len() - 1, Some(&classes), true);
                    let got_rtl: Vec<Item> = commit.as_ref().rtl_post_order_iter::<MaxSharing<Commit>>().map(|d| {
                        let idx = ptr_items.iter().position(|p| std::ptr::eq(p.node, d.node)).unwrap();
                        Item { node: idx, index: d.index, li: d.left_index, ri: d.right_index }
                    }).collect();
                    // (which of two equal-class nodes is met first differs between the two directions: compare classes)
                    let cls = |v: &[Item]| v.iter().map(|i| (classes[i.node], i.index, i.li, i.ri)).collect::<Vec<_>>();
                    if cls(&got_rtl) != cls(&want_rtl) {
                        return Err(("real:commit-maxsharing-rtl".into(), first_diff(&got_rtl, &want_rtl)));
                    }
                    let ptr_order: Vec<usize> = ref_post_order(&g, g.len() - 1, Some(&ident), false).iter().map(|i| i.node).collect();
                    let expect_shared = ptr_order == want.iter().map(|i| i.node).collect::<Vec<_>>();
                    if commit.as_ref().is_shared_as::<MaxSharing<Commit>>() != expect_shared {
                        return Err(("real:commit-is_shared_as".into(), format!("expected {expect_shared}")));
                    }
                    // redeem
                    if let Ok(redeem) = root.finalize_unpruned() {
                        let ptr_items: Vec<_> = redeem.as_ref().post_order_iter::<InternalSharing>().collect();
                        let mut ihr_class: HashMap<[u8; 32], usize> = HashMap::new();
                        let classes: Vec<Option<usize>> = ptr_items.iter().enumerate().map(|(k, it)| Some(*ihr_class.entry(it.node.ihr().to_byte_array()).or_insert(k))).collect();
                        let g: Vec<GN> = ptr_items.iter().enumerate().map(|(id, it)| GN { id, ar: usize::from(it.left_index.is_some()) + usize::from(it.right_index.is_some()), l: it.left_index.unwrap_or(0), r: it.right_index.unwrap_or(0) }).collect();
                        let want = ref_post_order(&g, g.len() - 1, Some(&classes), false);
                        let got: Vec<Item> = redeem.as_ref().post_order_iter::<MaxSharing<Redeem>>().map(|d| {
                            let idx = ptr_items.iter().position(|p| std::ptr::eq(p.node, d.node)).unwrap();
                            Item { node: idx, index: d.index, li: d.left_index, ri: d.right_index }
                        }).collect();
                        if got != want {
                            return Err(("real:redeem-maxsharing".into(), first_diff(&got, &want)));
                        }
                        let got_arc: Vec<Item> = Arc::clone(&redeem).post_order_iter::<MaxSharing<Redeem>>().map(|d| {
                            let idx = ptr_items.iter().position(|p| std::ptr::eq(p.node, Arc::as_ptr(&d.node))).unwrap();
                            Item { node: idx, index: d.index, li: d.left_index, ri: d.right_index }
                        }).collect();
                        if got_arc != want {
                            return Err(("real:redeem-maxsharing-arc".into(), first_diff(&got_arc, &want)));
                        }
                        let distinct: std::collections::HashSet<Option<usize>> = classes.iter().copied().collect();
                        if redeem.as_ref().is_shared_as::<MaxSharing<Redeem>>() != (distinct.len() == classes.len()) {
                            return Err(("real:redeem-is_shared_as".into(), "wrong".into()));
                        }
                    }
                    Ok(true)
                })
            });
            match r {
                Ok(Ok(true)) => {
                    out.evaluations += 1;
                    out.states += 1;
                    out.transitions += 4;
                    if shared_nodes(dag) > 0 {
                        out.nontrivial += 1;
                    }
                    out.outcome("real:ok");
                    out.sample(leg, || (label(), "MaxSharing<Commit> and MaxSharing<Redeem> iteration equal the reference with class = identity hash".into()));
                }
                Ok(Ok(false)) => {}
                Ok(Err((class, d))) => out.violation(&class, leg, label(), d),
                Err(p) => out.violation(&panic_class(&p), leg, label(), p),
            }
            ctx.end();
        }
    }
    let _ = Tier::Quick;
    leg_handles(ctx, out);
}

/// Real construct-time nodes, whose pointer structure is the enumerated DAG itself: iteration
/// through a `&Node` handle and through an owned `Arc<Node>` handle must both be the reference
/// walk of that DAG (the two handle kinds have separate `DagLike` impls, and disconnect nodes have
/// a third, optional child representation of their own).
fn leg_handles(ctx: &Ctx, out: &mut Out) {
    let leg = "handles";
    let fam = Fam::Core;
    let alpha = vec![Sym::Iden, Sym::Unit, Sym::Witness, Sym::InjL, Sym::Take, Sym::Drop, Sym::Comp, Sym::Case, Sym::Pair, Sym::Disc1, Sym::Disc2];
    let nmax = ctx.tier.pick(4, 6);
    for n in 1..=nmax {
        let mut dags: Vec<Dag> = vec![];
        enum_dags(n, &alpha, 3, &mut || ctx.mine(), &mut |d| dags.push(d.to_vec()));
        for dag in &dags {
            let label = || render(dag, fam);
            if !ctx.begin(leg, &label) {
                continue;
            }
            let r = guard(|| -> Result<bool, (String, String)> {
                types::Context::with_context(|tctx| {
                    let built = match build(&tctx, dag, fam, &|_| None) {
                        Ok(b) => b,
                        Err(_) => return Ok(false),
                    };
                    let root = &built[dag.len() - 1];
                    let index_of: HashMap<usize, usize> = built.iter().enumerate().map(|(i, b)| (Arc::as_ptr(b) as usize, i)).collect();
                    let g: Vec<GN> = dag.iter().enumerate().map(|(id, x)| GN { id, ar: x.sym.arity(), l: x.l as usize, r: x.r as usize }).collect();
                    let ident: Vec<Option<usize>> = (0..g.len()).map(Some).collect();
                    let rootix = g.len() - 1;
                    let limit = 4096;
                    for (policy, class) in [("internal", Some(&ident[..])), ("none", None)] {
                        for mirror in [false, true] {
                            let want = ref_post_order(&g, rootix, class, mirror);
                            if want.len() > limit / 2 {
                                continue;
                            }
                            let by_ref: Vec<Item> = {
                                let h = root.as_ref();
                                let f = |d: PostOrderIterItem<&_>| Item { node: index_of[&(d.node as *const _ as *const u8 as usize)], index: d.index, li: d.left_index, ri: d.right_index };
                                match (policy, mirror) {
                                    ("internal", false) => h.post_order_iter::<InternalSharing>().take(limit).map(f).collect(),
                                    ("internal", true) => h.rtl_post_order_iter::<InternalSharing>().take(limit).map(f).collect(),
                                    (_, false) => h.post_order_iter::<NoSharing>().take(limit).map(f).collect(),
                                    (_, true) => h.rtl_post_order_iter::<NoSharing>().take(limit).map(f).collect(),
                                }
                            };
                            let by_arc: Vec<Item> = {
                                let h = Arc::clone(root);
                                let f = |d: PostOrderIterItem<Arc<_>>| Item { node: index_of[&(Arc::as_ptr(&d.node) as *const u8 as usize)], index: d.index, li: d.left_index, ri: d.right_index };
                                match (policy, mirror) {
                                    ("internal", false) => h.post_order_iter::<InternalSharing>().take(limit).map(f).collect(),
                                    ("internal", true) => h.rtl_post_order_iter::<InternalSharing>().take(limit).map(f).collect(),
                                    (_, false) => h.post_order_iter::<NoSharing>().take(limit).map(f).collect(),
                                    (_, true) => h.rtl_post_order_iter::<NoSharing>().take(limit).map(f).collect(),
                                }
                            };
                            let what = format!("{}post-order, sharing {policy}", if mirror { "rtl-" } else { "" });
                            if by_ref != want {
                                return Err(("handles:ref".into(), format!("&ConstructNode, {what}: {}", first_diff(&by_ref, &want))));
                            }
                            if by_arc != want {
                                return Err(("handles:arc".into(), format!("Arc<ConstructNode>, {what}: {}", first_diff(&by_arc, &want))));
                            }
                        }
                    }
                    // pre-order: both handle kinds must agree, root first, the left subtree before the right
                    let pre_ref: Vec<usize> = root.as_ref().pre_order_iter::<InternalSharing>().take(limit).map(|d| index_of[&(d as *const _ as *const u8 as usize)]).collect();
                    let pre_arc: Vec<usize> = Arc::clone(root).pre_order_iter::<InternalSharing>().take(limit).map(|d| index_of[&(Arc::as_ptr(&d) as *const u8 as usize)]).collect();
                    fn ref_pre(g: &[GN], i: usize, seen: &mut Vec<bool>, out: &mut Vec<usize>) {
                        if seen[i] {
                            return;
                        }
                        seen[i] = true;
                        out.push(i);
                        if g[i].ar >= 1 {
                            ref_pre(g, g[i].l, seen, out);
                        }
                        if g[i].ar >= 2 {
                            ref_pre(g, g[i].r, seen, out);
                        }
                    }
                    let mut want_pre = vec![];
                    ref_pre(&g, rootix, &mut vec![false; g.len()], &mut want_pre);
                    if pre_ref != want_pre {
                        return Err(("handles:ref".into(), format!("&ConstructNode pre-order visits {pre_ref:?}, the reference {want_pre:?}")));
                    }
                    if pre_arc != want_pre {
                        return Err(("handles:arc".into(), format!("Arc<ConstructNode> pre-order visits {pre_arc:?}, the reference {want_pre:?}")));
                    }
                    Ok(true)
                })
            });
            match r {
                Ok(Ok(true)) => {
                    out.evaluations += 1;
                    out.states += 1;
                    out.transitions += 10;
                    if shared_nodes(dag) > 0 || dag.iter().any(|x| matches!(x.sym, Sym::Disc1 | Sym::Disc2)) {
                        out.nontrivial += 1;
                    }
                    out.outcome("handles:ok");
                    out.sample(leg, || (label(), "post-order, rtl post-order and pre-order through & and Arc handles equal the reference walk of the DAG".into()));
                }
                Ok(Ok(false)) => {}
                Ok(Err((class, d))) => out.violation(&class, leg, label(), d),
                Err(p) => out.violation(&panic_class(&p), leg, label(), p),
            }
            ctx.end();
        }
    }
}
