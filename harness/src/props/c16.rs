//! C16 - policies compile, satisfy and canonicalise consistently.

use crate::engine::{guard, panic_class, Ctx, Out, PropDef, Tier};
use crate::space::envs;
use simplicity::bitcoin::hashes::{sha256, Hash as _};
use simplicity::bitcoin::key::XOnlyPublicKey;
use simplicity::elements::secp256k1_zkp::{Keypair, Message, Secp256k1};
use simplicity::elements::{self, SchnorrSig, SchnorrSighashType};
use simplicity::node::SimpleFinalizer;
use simplicity::policy::SatisfierError;
use simplicity::{types, BitMachine, FailEntropy, Policy, Preimage32, Satisfier};
use std::collections::HashMap;
use std::sync::Arc;

pub static DEF: PropDef = PropDef {
    id: "C16",
    run,
    rule: "states = distinct (policy, available secrets, environment) cases + distinct (policy, permutation) cases; transitions = cmr/commit/satisfy/execute/sorted calls judged; non-trivial = policy has at least one and/or/threshold node",
    assumptions: &[
        "leaf truth is defined by running the leaf's own compiled fragment in the environment (so the satisfier's lock-time answers are true of the environment by construction); signatures are real BIP-340 signatures over the environment's sighash_all; composite truth by Boolean / at-least-k semantics",
        "thresholds range over 0 <= k <= n",
    ],
    shards: (32, 128),
    budget_ms: (60_000, 180_000),
};

pub type Pk = XOnlyPublicKey;
pub type P = Policy<Pk>;

pub struct Keys {
    pub k: [Keypair; 2],
    pub pk: [Pk; 2],
    pub pre: Preimage32,
    pub image: sha256::Hash,
}

pub fn keys() -> Keys {
    let secp = Secp256k1::new();
    let k1 = Keypair::from_seckey_slice(&secp, &[0x11; 32]).unwrap();
    let k2 = Keypair::from_seckey_slice(&secp, &[0x22; 32]).unwrap();
    let pre = [7u8; 32];
    Keys { pk: [k1.x_only_public_key().0, k2.x_only_public_key().0], k: [k1, k2], pre, image: sha256::Hash::hash(&pre) }
}

fn leaves(ks: &Keys) -> Vec<P> {
    vec![
        Policy::Key(ks.pk[0]),
        Policy::Key(ks.pk[1]),
        Policy::Sha256(ks.image),
        Policy::After(41),
        Policy::After(42),
        Policy::After(43),
        Policy::Older(1),
        Policy::Older(2),
        Policy::Trivial,
        Policy::Unsatisfiable(FailEntropy::ZERO),
        // (the hidden fail node's CMR commits to the entropy: a zero entropy cannot tell whether it is carried through)
        Policy::Unsatisfiable(FailEntropy::from_byte_array([0x5a; 64])),
    ]
}

fn size(p: &P) -> usize {
    match p {
        Policy::And { left, right } | Policy::Or { left, right } => 1 + size(left) + size(right),
        Policy::Threshold(_, subs) => 1 + subs.iter().map(size).sum::<usize>(),
        _ => 1,
    }
}

/// all policies with exactly `s` nodes, memoised by size
pub fn policies(s: usize, memo: &mut Vec<Vec<P>>, ks: &Keys) -> Vec<P> {
    while memo.len() <= s {
        let n = memo.len();
        let mut v: Vec<P> = vec![];
        if n == 1 {
            v = leaves(ks);
        } else if n >= 3 {
            // and / or
            for a in 1..n - 1 {
                let b = n - 1 - a;
                for x in memo[a].clone() {
                    for y in memo[b].clone() {
                        v.push(Policy::And { left: Arc::new(x.clone()), right: Arc::new(y.clone()) });
                        v.push(Policy::Or { left: Arc::new(x.clone()), right: Arc::new(y.clone()) });
                    }
                }
            }
            // thresholds with 2 or 3 children
            for a in 1..n - 1 {
                let b = n - 1 - a;
                for x in memo[a].clone() {
                    for y in memo[b].clone() {
                        for k in 0..=2 {
                            v.push(Policy::Threshold(k, vec![x.clone(), y.clone()]));
                        }
                    }
                }
            }
            if n >= 4 {
                for a in 1..n - 2 {
                    for b in 1..n - 1 - a {
                        let c = n - 1 - a - b;
                        if c < 1 {
                            continue;
                        }
                        for x in memo[a].clone() {
                            for y in memo[b].clone() {
                                for z in memo[c].clone() {
                                    for k in 0..=3 {
                                        v.push(Policy::Threshold(k, vec![x.clone(), y.clone(), z.clone()]));
                                    }
                                }
                            }
                        }
                    }
                }
            }
        }
        memo.push(v);
    }
    memo[s].clone()
}

pub struct Sat<'a, 'brand> {
    pub ctx: types::Context<'brand>,
    pub sigs: HashMap<Pk, SchnorrSig>,
    pub pre: HashMap<sha256::Hash, Preimage32>,
    pub env: &'a envs::Env,
}

fn leaf_runs(p: &P, env: &envs::Env) -> bool {
    let c = p.commit();
    let r = match c.finalize(&mut SimpleFinalizer::new(std::iter::empty())) {
        Ok(r) => r,
        Err(_) => return false,
    };
    let mut mac = match BitMachine::for_program(&r) {
        Ok(m) => m,
        Err(_) => return false,
    };
    mac.exec(&r, env).is_ok()
}

impl<'brand> Satisfier<'brand, Pk> for Sat<'_, 'brand> {
    fn inference_context(&self) -> &types::Context<'brand> {
        &self.ctx
    }
    fn lookup_signature(&self, pk: &Pk) -> Option<SchnorrSig> {
        self.sigs.get(pk).copied()
    }
    fn lookup_sha256(&self, h: &sha256::Hash) -> Option<Preimage32> {
        self.pre.get(h).copied()
    }
    fn check_after(&self, lt: elements::LockTime) -> bool {
        // true of the environment: the compiled `after` fragment itself runs
        leaf_runs(&Policy::<Pk>::After(lt.to_consensus_u32()), self.env)
    }
    fn check_older(&self, seq: elements::Sequence) -> bool {
        leaf_runs(&Policy::<Pk>::Older(seq.to_consensus_u32() as u16), self.env)
    }
}

fn truth(p: &P, avail: u8, ks: &Keys, env: &envs::Env, cache: &mut HashMap<String, bool>) -> bool {
    match p {
        Policy::Unsatisfiable(_) => false,
        Policy::Trivial => true,
        Policy::Key(k) => (*k == ks.pk[0] && avail & 1 != 0) || (*k == ks.pk[1] && avail & 2 != 0),
        Policy::Sha256(_) => avail & 4 != 0,
        Policy::After(_) | Policy::Older(_) => {
            let key = format!("{p}");
            if let Some(b) = cache.get(&key) {
                return *b;
            }
            let b = leaf_runs(p, env);
            cache.insert(key, b);
            b
        }
        Policy::And { left, right } => truth(left, avail, ks, env, cache) && truth(right, avail, ks, env, cache),
        Policy::Or { left, right } => truth(left, avail, ks, env, cache) || truth(right, avail, ks, env, cache),
        Policy::Threshold(k, subs) => subs.iter().filter(|s| truth(s, avail, ks, env, cache)).count() >= *k,
    }
}

pub fn lock_envs() -> Vec<(String, envs::EnvSpec)> {
    let mut v = vec![];
    for (lt, seq) in [(42u32, 0xffff_fffeu32), (41, 1), (43, 2), (0, 0), (42, u32::MAX), (500_000_042, 1), (42, (1 << 22) | 2), (42, 1 << 31)] {
        let mut e = envs::base_env();
        e.lock_time = lt;
        e.inputs[0].sequence = seq;
        v.push((format!("lock_time={lt} sequence={seq:#x}"), e));
    }
    v
}

fn run(ctx: &Ctx, out: &mut Out) {
    let ks = keys();
    let smax = ctx.tier.pick(3, 5);
    let mut memo: Vec<Vec<P>> = vec![vec![]];
    let specs = lock_envs();
    let nenv = ctx.tier.pick(5, specs.len());
    let built: Vec<(String, envs::Built)> = specs.iter().take(nenv).map(|(n, s)| (n.clone(), envs::build(s))).collect();
    let secp = Secp256k1::new();
    // signatures per environment
    let sigs: Vec<[SchnorrSig; 2]> = built
        .iter()
        .map(|(_, b)| {
            let msg = Message::from_digest(b.env.c_tx_env().sighash_all().to_byte_array());
            [0, 1].map(|i| SchnorrSig { sig: secp.sign_schnorr_no_aux_rand(&msg, &ks.k[i]), hash_ty: SchnorrSighashType::All })
        })
        .collect();
    let mut caches: Vec<HashMap<String, bool>> = vec![HashMap::new(); built.len()];
    for s in 1..=5 {
        let pols = policies(s, &mut memo, &ks);
        for chunk in pols.chunks(8) {
            if !ctx.mine() {
                continue;
            }
            for p in chunk {
                if s <= smax {
                    leg_satisfy(ctx, out, p, &ks, &built, &sigs, &mut caches);
                }
                // canonical sorting is cheap: always to 5 nodes (nesting depth 2)
                leg_sorted(ctx, out, p);
            }
        }
    }
    leg_sorted_deep(ctx, out);
    // satisfaction at nesting depth 2 (3): all policies with 4..5 (7) nodes over five leaves, one environment
    {
        let small = vec![Policy::Trivial, Policy::Unsatisfiable(FailEntropy::ZERO), Policy::Unsatisfiable(FailEntropy::from_byte_array([0x5a; 64])), Policy::After(41), Policy::Key(ks.pk[0])];
        let mut memo2: Vec<Vec<P>> = vec![vec![], small];
        let top = ctx.tier.pick(5, 7);
        for s in 4..=top {
            // (sizes up to s are built on demand from the five leaves)
            while memo2.len() <= s {
                let n = memo2.len();
                let mut v: Vec<P> = vec![];
                if n >= 3 {
                    for a in 1..n - 1 {
                        let b = n - 1 - a;
                        for x in &memo2[a] {
                            for y in &memo2[b] {
                                v.push(Policy::And { left: Arc::new(x.clone()), right: Arc::new(y.clone()) });
                                v.push(Policy::Or { left: Arc::new(x.clone()), right: Arc::new(y.clone()) });
                                v.push(Policy::Threshold(1, vec![x.clone(), y.clone()]));
                            }
                        }
                    }
                }
                memo2.push(v);
            }
            for chunk in memo2[s].chunks(32) {
                if !ctx.mine() {
                    continue;
                }
                for p in chunk {
                    leg_satisfy(ctx, out, p, &ks, &built[..1], &sigs[..1], &mut caches[..1]);
                }
            }
        }
    }
    let _ = Tier::Quick;
}

/// canonical sorting at nesting depth 3: every policy with at most 7 nodes over three ordered leaves
/// (a threshold or conjunction whose children are themselves unsorted needs 7 nodes)
fn leg_sorted_deep(ctx: &Ctx, out: &mut Out) {
    let small = [Policy::After(1), Policy::After(5), Policy::After(9)];
    let nmax = ctx.tier.pick(7, 8);
    let mut memo: Vec<Vec<P>> = vec![vec![], small.to_vec()];
    for n in 2..=nmax {
        let mut v: Vec<P> = vec![];
        if n >= 3 {
            for a in 1..n - 1 {
                let b = n - 1 - a;
                for x in &memo[a] {
                    for y in &memo[b] {
                        v.push(Policy::And { left: Arc::new(x.clone()), right: Arc::new(y.clone()) });
                        v.push(Policy::Or { left: Arc::new(x.clone()), right: Arc::new(y.clone()) });
                        v.push(Policy::Threshold(1, vec![x.clone(), y.clone()]));
                    }
                }
            }
        }
        if n >= 4 {
            for a in 1..n - 2 {
                for b in 1..n - 1 - a {
                    let c = n - 1 - a - b;
                    for x in &memo[a] {
                        for y in &memo[b] {
                            for z in &memo[c] {
                                v.push(Policy::Threshold(2, vec![x.clone(), y.clone(), z.clone()]));
                            }
                        }
                    }
                }
            }
        }
        memo.push(v);
    }
    for n in 6..=nmax {
        for chunk in memo[n].chunks(256) {
            if !ctx.mine() {
                continue;
            }
            for p in chunk {
                leg_sorted(ctx, out, p);
            }
        }
    }
}

fn leg_satisfy(ctx: &Ctx, out: &mut Out, p: &P, ks: &Keys, built: &[(String, envs::Built)], sigs: &[[SchnorrSig; 2]], caches: &mut [HashMap<String, bool>]) {
    let leg = "satisfy";
    // (a) root-only compilation equals the committed program's root
    let label0 = || format!("{p}");
    if ctx.begin("cmr", &label0) {
        out.evaluations += 1;
        out.transitions += 2;
        match guard(|| (p.cmr(), p.commit().cmr())) {
            Ok((a, b)) if a == b => out.outcome("cmr:ok"),
            Ok((a, b)) => out.violation("policy:cmr-vs-commit", "cmr", label0(), format!("Policy::cmr {a}, commit().cmr() {b}")),
            Err(e) => out.violation(&panic_class(&e), "cmr", label0(), e),
        }
        ctx.end();
    }
    let root = match guard(|| p.cmr()) {
        Ok(c) => c,
        Err(_) => return,
    };
    for (ei, (ename, b)) in built.iter().enumerate() {
        for avail in 0u8..8 {
            let label = || format!("{p} available[{}{}{}] env[{ename}]", if avail & 1 != 0 { "sig1 " } else { "" }, if avail & 2 != 0 { "sig2 " } else { "" }, if avail & 4 != 0 { "preimage" } else { "" });
            if !ctx.begin(leg, &label) {
                continue;
            }
            out.evaluations += 1;
            out.states += 1;
            if !matches!(p, Policy::Key(_) | Policy::Sha256(_) | Policy::After(_) | Policy::Older(_) | Policy::Trivial | Policy::Unsatisfiable(_)) {
                out.nontrivial += 1;
            }
            let want = truth(p, avail, ks, &b.env, &mut caches[ei]);
            let r = guard(|| {
                types::Context::with_context(|tctx| {
                    let mut s = Sat { ctx: tctx, sigs: HashMap::new(), pre: HashMap::new(), env: &b.env };
                    if avail & 1 != 0 {
                        s.sigs.insert(ks.pk[0], sigs[ei][0]);
                    }
                    if avail & 2 != 0 {
                        s.sigs.insert(ks.pk[1], sigs[ei][1]);
                    }
                    if avail & 4 != 0 {
                        s.pre.insert(ks.image, ks.pre);
                    }
                    p.satisfy(&s, &b.env)
                })
            });
            out.transitions += 1;
            match r {
                Ok(Ok(prog)) => {
                    if !want {
                        out.violation("satisfy:succeeds-on-false-policy", leg, label(), "satisfy returned a program although the policy is false under the available data".into());
                    } else if prog.cmr() != root {
                        out.violation("satisfy:cmr", leg, label(), format!("satisfied program has CMR {}, policy {}", prog.cmr(), root));
                    } else {
                        out.transitions += 1;
                        let ok = guard(|| BitMachine::for_program(&prog).ok().map(|mut m| m.exec(&prog, &b.env).is_ok()).unwrap_or(false));
                        match ok {
                            Ok(true) => {
                                out.outcome("satisfied");
                                out.sample(leg, || (label(), "satisfied; program has the policy's CMR and runs".into()));
                            }
                            Ok(false) => out.violation("satisfy:program-does-not-run", leg, label(), "the returned program fails in the same environment".into()),
                            Err(e) => out.violation(&panic_class(&e), leg, label(), e),
                        }
                    }
                }
                Ok(Err(e)) => {
                    if want {
                        let kind = match e {
                            SatisfierError::Unsatisfiable => "unsatisfiable",
                            SatisfierError::AssemblyFailed(_) => "assembly-failed",
                        };
                        out.violation(&format!("satisfy:fails-on-true-policy:{kind}"), leg, label(), format!("the policy is true under the available data but satisfy returns {e:?}"));
                    } else {
                        out.outcome("unsatisfiable");
                    }
                }
                Err(e) => out.violation(&panic_class(&e), leg, label(), e),
            }
            ctx.end();
        }
    }
}

/// all reorderings of commutative children at every depth
fn permutations(p: &P) -> Vec<P> {
    match p {
        Policy::And { left, right } | Policy::Or { left, right } => {
            let mut v = vec![];
            for l in permutations(left) {
                for r in permutations(right) {
                    let mk = |a: &P, b: &P| match p {
                        Policy::And { .. } => Policy::And { left: Arc::new(a.clone()), right: Arc::new(b.clone()) },
                        _ => Policy::Or { left: Arc::new(a.clone()), right: Arc::new(b.clone()) },
                    };
                    v.push(mk(&l, &r));
                    v.push(mk(&r, &l));
                }
            }
            v
        }
        Policy::Threshold(k, subs) => {
            // product of children's variants, then all orders
            let mut combos: Vec<Vec<P>> = vec![vec![]];
            for s in subs {
                let vs = permutations(s);
                combos = combos.into_iter().flat_map(|c| vs.iter().map(move |v| { let mut c2 = c.clone(); c2.push(v.clone()); c2 })).collect();
            }
            let mut v = vec![];
            for c in combos {
                let n = c.len();
                let mut idx: Vec<usize> = (0..n).collect();
                // Heap's algorithm (n <= 3)
                fn heap(k: usize, idx: &mut Vec<usize>, out: &mut Vec<Vec<usize>>) {
                    if k == 1 {
                        out.push(idx.clone());
                        return;
                    }
                    for i in 0..k {
                        heap(k - 1, idx, out);
                        if k % 2 == 0 { idx.swap(i, k - 1) } else { idx.swap(0, k - 1) }
                    }
                }
                let mut orders = vec![];
                heap(n, &mut idx, &mut orders);
                for o in orders {
                    v.push(Policy::Threshold(*k, o.iter().map(|i| c[*i].clone()).collect()));
                }
            }
            v
        }
        other => vec![other.clone()],
    }
}

fn leg_sorted(ctx: &Ctx, out: &mut Out, p: &P) {
    let leg = "sorted";
    if size(p) < 3 {
        return;
    }
    let label = || format!("{p}");
    if !ctx.begin(leg, &label) {
        return;
    }
    out.evaluations += 1;
    out.nontrivial += 1;
    let r = guard(|| {
        let base = p.clone().sorted();
        if base.clone().sorted() != base {
            return Some(("sorted:not-idempotent".to_string(), format!("sorted = {base}, sorted again = {}", base.clone().sorted())));
        }
        let perms = permutations(p);
        for q in &perms {
            out.transitions += 1;
            out.states += 1;
            let s = q.clone().sorted();
            if s != base {
                return Some(("sorted:order-dependent".to_string(), format!("reordering {q} sorts to {s}, the original sorts to {base}")));
            }
            // sorting never changes the multiset of leaves
        }
        None
    });
    match r {
        Ok(None) => {
            out.outcome("sorted:ok");
            out.sample(leg, || (label(), "sorted() is idempotent and equal for every reordering of commutative children".into()));
        }
        Ok(Some((c, d))) => out.violation(&c, leg, label(), d),
        Err(e) => out.violation(&panic_class(&e), leg, label(), e),
    }
    ctx.end();
}
