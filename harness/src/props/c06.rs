//! C06 - Rust and C evaluators reach the same verdict.

use crate::engine::{guard, panic_class, Ctx, Out, PropDef, Tier};
use crate::props::c01::sigma_p;
use crate::reference::bits::hex;
use crate::reference::cpipe::*;
use crate::space::dag::*;
use crate::space::envs;
use crate::space::programs::*;
use simplicity::bit_machine::ExecutionError;
use simplicity::{BitMachine, RedeemNode};

pub static DEF: PropDef = PropDef {
    id: "C06",
    run,
    rule: "states = distinct (program, witness assignment, environment) triples executed by both evaluators; transitions = executions (2 per state); non-trivial = program contains a jet, assertion, case, disconnect or witness",
    assumptions: &[
        "C side: the Rust serialisation re-decoded by libsimplicity, run with evalTCOExpression(CHECK_NONE) in the environment marshalled by ElementsEnv::new (the same CTxEnv object both evaluators read)",
        "verdict classes compared: ok / assertion / jet failure; programs with fail nodes are skipped (C refuses them at decode); C ExecMemory/ExecBudget are outside the statement",
    ],
    shards: (32, 128),
    budget_ms: (60_000, 180_000),
};

fn rust_verdict(p: &RedeemNode, env: &envs::Env) -> Result<&'static str, String> {
    let mut mac = BitMachine::for_program(p).map_err(|e| format!("limits: {e}"))?;
    Ok(match mac.exec(p, env) {
        Ok(_) => "ok",
        Err(ExecutionError::ReachedPrunedBranch(_)) => "assertion",
        Err(ExecutionError::JetFailed(_)) => "jet",
        Err(ExecutionError::ReachedFailNode(_)) => "fail-node",
        Err(e) => return Err(format!("unexpected execution error {e}")),
    })
}

pub fn compare_eval(r: &RedeemNode, env: &envs::Env, out: &mut Out) -> Result<&'static str, (String, String)> {
    let (pb, wb) = r.to_vec_with_witness();
    out.transitions += 2;
    let (cv, cp) = c_check(&pb, &wb);
    let mut cp = match (cv, cp) {
        (CVerdict::Accept(_), Some(p)) => p,
        (CVerdict::Reject(c, stage), _) => {
            return Err(("c-rejects-program".into(), format!("libsimplicity rejects {} / {} at {stage}: {}", hex(&pb), hex(&wb), err_name(c))));
        }
        _ => unreachable!(),
    };
    let code = cp.eval(CHECK_NONE, Some(env.c_tx_env()));
    let c = match err_name(code) {
        "NoError" => "ok",
        "ExecAssert" => "assertion",
        "ExecJet" => "jet",
        "ExecMemory" | "ExecBudget" | "Malloc" => return Ok("outside-c-limits"),
        other => return Err(("c-unexpected".into(), format!("evalTCOExpression returns {other}"))),
    };
    let rv = rust_verdict(r, env).map_err(|e| ("rust-unexpected".to_string(), e))?;
    if rv != c {
        return Err((format!("verdict:rust-{rv}:c-{c}"), format!("Rust Bit Machine: {rv}; C evaluator: {c}; program {} witness {}", hex(&pb), hex(&wb))));
    }
    Ok(match c {
        "ok" => "both-ok",
        "assertion" => "both-assertion",
        _ => "both-jet-failure",
    })
}

fn run(ctx: &Ctx, out: &mut Out) {
    let mut specs = envs::one_deviation_envs();
    specs.extend(envs::positional_envs());
    if ctx.tier == Tier::Thorough {
        specs.extend(envs::two_deviation_envs());
    }
    let built: Vec<(String, envs::Built)> = specs.iter().map(|(n, s)| (n.clone(), envs::build(s))).collect();
    leg_population(ctx, out, &built);
    leg_jets(ctx, out, &built);
    leg_jet_outputs(ctx, out, &built);
    leg_term_outputs(ctx, out, &built);
}

/// `comp witness j : 1 -> B` as a bare expression: both evaluators must produce the same output
/// bits (this is where jet input/output marshalling of the Rust machine is compared with C's).
fn leg_jet_outputs(ctx: &Ctx, out: &mut Out, envs_: &[(String, envs::Built)]) {
    use crate::reference::unify::{infer, Infer};
    use simplicity::types;
    let leg = "jet-outputs";
    let fam = Fam::Elements;
    for j in 0..fam.n_jets() as u16 {
        if !ctx.mine() {
            continue;
        }
        let dag: Dag = vec![Node { sym: Sym::Witness, l: 0, r: 0 }, Node { sym: Sym::Jet(j), l: 0, r: 0 }, Node { sym: Sym::Comp, l: 0, r: 1 }];
        let arrows = match infer(&dag, fam, false) {
            Infer::Ok(a) => a,
            Infer::Err(..) => continue,
        };
        // expression typing leaves the witness source free -> unit
        let p = Prog { dag: dag.clone(), fam, arrows };
        let (assignments, _) = p.witness_assignments(6, 64);
        let name = fam.jet(j).to_string();
        let env_ix: Vec<usize> = if ctx.tier == Tier::Thorough { (0..envs_.len()).collect() } else { (0..envs_.len()).step_by(5).collect() };
        for wit in &assignments {
            let r = types::Context::with_context(|tctx| {
                let built = build(&tctx, &dag, fam, &|i| wit[i].as_ref().map(|v| v.to_value(&p.arrows[i].1))).ok()?;
                built[2].finalize_unpruned().ok()
            });
            let Some(r) = r else {
                out.violation("jet-outputs:build", leg, name.clone(), "expression does not finalise".into());
                continue;
            };
            let (pb, wb) = r.to_vec_with_witness();
            for &e in &env_ix {
                let label = || format!("comp witness jet:{name} {} env[{}]", wit_str(wit), envs_[e].0);
                if !ctx.begin(leg, &label) {
                    continue;
                }
                out.evaluations += 1;
                out.states += 1;
                out.nontrivial += 1;
                out.transitions += 2;
                let res = guard(|| -> Result<&'static str, (String, String)> {
                    let mut cp = c_check_expr(&pb, &wb).map_err(|(c, st)| ("c-rejects-expression".to_string(), format!("{} at {st}", err_name(c))))?;
                    let nbits = r.arrow().target.bit_width();
                    if cp.root_target_bits() != nbits || cp.root_source_bits() != 0 {
                        return Err(("jet-outputs:types".into(), "C and Rust infer different root types".into()));
                    }
                    let (code, cbits) = cp.eval_output(Some(envs_[e].1.env.c_tx_env()), nbits);
                    let mut mac = BitMachine::for_program(&r).map_err(|x| ("rust-unexpected".to_string(), x.to_string()))?;
                    let rres = mac.exec(&r, &envs_[e].1.env);
                    match (err_name(code), rres) {
                        ("NoError", Ok(v)) => {
                            let rbits: Vec<bool> = v.iter_padded().collect();
                            // compare on data positions: padding content is unspecified
                            let rv = crate::reference::tyval::RV::from_value(&v).map_err(|x| ("jet-outputs:value".to_string(), x))?;
                            let want = rv.padded(&crate::reference::tyval::RT::from_final(&r.arrow().target));
                            if cbits.len() != rbits.len() || want.iter().zip(&cbits).any(|(w, c)| w.map(|w| w != *c).unwrap_or(false)) {
                                return Err(("jet-outputs:differ".into(), format!("C output {} Rust output {}", crate::reference::bits::bits_str(&cbits), crate::reference::bits::bits_str(&rbits))));
                            }
                            Ok("same-output")
                        }
                        ("ExecJet", Err(ExecutionError::JetFailed(_))) => Ok("both-jet-failure"),
                        ("ExecMemory" | "ExecBudget" | "Malloc", _) => Ok("outside-c-limits"),
                        (c, r2) => Err((format!("jet-outputs:verdict:c-{c}"), format!("C {c}, Rust {:?}", r2.map(|_| "ok").map_err(|e| e.to_string())))),
                    }
                });
                match res {
                    Ok(Ok(o)) => {
                        out.outcome(o);
                        out.sample(leg, || (label(), o.to_string()));
                    }
                    Ok(Err((c, d))) => out.violation(&c, leg, label(), d),
                    Err(pn) => out.violation(&panic_class(&pn), leg, label(), pn),
                }
                ctx.end();
            }
        }
    }
}

fn leg_population(ctx: &Ctx, out: &mut Out, envs_: &[(String, envs::Built)]) {
    let leg = "population";
    let fam = Fam::Elements;
    let nmax = ctx.tier.pick(4, 5);
    let nenv = ctx.tier.pick(6, envs_.len());
    // a spread of environments: base, a lock time, a pegin, an issuance, an annex, two inputs
    let pick: Vec<usize> = if nenv >= envs_.len() { (0..envs_.len()).collect() } else { (0..nenv).map(|k| k * envs_.len() / nenv).collect() };
    for n in 1..=nmax {
        let mut alpha = sigma_p(fam);
        alpha.retain(|s| !matches!(s, Sym::Fail(_) | Sym::Disc1));
        alpha.extend([Sym::Jet(fam.find("lock_time")), Sym::Jet(fam.find("current_index")), Sym::Jet(fam.find("eq_32"))]);
        let mut dags: Vec<Dag> = vec![];
        enum_dags(n, &alpha, 3, &mut || ctx.mine(), &mut |d| dags.push(d.to_vec()));
        for dag in &dags {
            let Some(p) = Prog::new(dag, fam) else { continue };
            let (assignments, _) = p.witness_assignments(4, ctx.tier.pick(16, 128));
            for wit in &assignments {
                let Ok(r) = p.to_redeem(wit) else { continue };
                // environment-independent programs run in one environment only
                let uses_env = p.has(|s| matches!(s, Sym::Jet(j) if fam.jet(j).to_string() == "lock_time" || fam.jet(j).to_string() == "current_index"));
                for &e in if uses_env { &pick[..] } else { &pick[..1] } {
                    let label = || format!("{} {} env[{}]", p.render(), wit_str(wit), envs_[e].0);
                    if !ctx.begin(leg, &label) {
                        continue;
                    }
                    out.evaluations += 1;
                    out.states += 1;
                    if crate::props::c01::nontrivial(&p) || p.has(|s| matches!(s, Sym::Jet(_) | Sym::Case)) {
                        out.nontrivial += 1;
                    }
                    match guard(|| compare_eval(&r, &envs_[e].1.env, out)) {
                        Ok(Ok(o)) => {
                            out.outcome(o);
                            out.sample(leg, || (label(), o.to_string()));
                        }
                        Ok(Err((c, d))) => out.violation(&c, leg, label(), d),
                        Err(pn) => out.violation(&panic_class(&pn), leg, label(), pn),
                    }
                    ctx.end();
                }
            }
        }
    }
}

/// comp (comp witness j) unit for all 471 jets x witness corner values x environments
fn leg_jets(ctx: &Ctx, out: &mut Out, envs_: &[(String, envs::Built)]) {
    let leg = "jets";
    let fam = Fam::Elements;
    for j in 0..fam.n_jets() as u16 {
        if !ctx.mine() {
            continue;
        }
        let dag: Dag = vec![
            Node { sym: Sym::Witness, l: 0, r: 0 },
            Node { sym: Sym::Jet(j), l: 0, r: 0 },
            Node { sym: Sym::Comp, l: 0, r: 1 },
            Node { sym: Sym::Unit, l: 0, r: 0 },
            Node { sym: Sym::Comp, l: 2, r: 3 },
        ];
        let Some(p) = Prog::new(&dag, fam) else { continue };
        let (assignments, _) = p.witness_assignments(6, 64);
        let name = fam.jet(j).to_string();
        // jets that read the environment run in all of them, the others in the base one
        let src_ty = fam.jet(j).source_ty().to_final();
        let reads_env = src_ty.bit_width() <= 64 || name.contains("hash") || name.contains("issuance") || name.contains("input") || name.contains("output") || name.contains("tap") || name.contains("lock");
        let env_ix: Vec<usize> = if reads_env && ctx.tier == Tier::Thorough { (0..envs_.len()).collect() } else if reads_env { (0..envs_.len()).step_by(4).collect() } else { vec![0] };
        for wit in &assignments {
            let Ok(r) = p.to_redeem(wit) else {
                out.violation("jets:build", leg, name.clone(), "one-jet program does not finalise".into());
                continue;
            };
            for &e in &env_ix {
                let label = || format!("jet {name} {} env[{}]", wit_str(wit), envs_[e].0);
                if !ctx.begin(leg, &label) {
                    continue;
                }
                out.evaluations += 1;
                out.states += 1;
                out.nontrivial += 1;
                match guard(|| compare_eval(&r, &envs_[e].1.env, out)) {
                    Ok(Ok(o)) => {
                        out.outcome(o);
                        out.sample(leg, || (label(), o.to_string()));
                    }
                    Ok(Err((c, d))) => out.violation(&c, leg, label(), d),
                    Err(pn) => out.violation(&panic_class(&pn), leg, label(), pn),
                }
                ctx.end();
            }
        }
    }
}

/// comp witness (comp (pair iden inspect_A) (comp (take t) (pair iden inspect_B))) : 1 -> B x 1 (or 1 -> B when
/// B is wide): the two inspectors destruct A and B completely, which makes the term's annotation principal
pub fn pinned_expression(t: &std::rc::Rc<crate::reference::eval::Term>, input: &std::rc::Rc<crate::reference::tyval::RV>) -> std::rc::Rc<crate::reference::eval::Term> {
    use crate::reference::eval::{Term, Tm};
    use crate::reference::tyval::RT;
    let one = RT::unit();
    let w = Term::new(Tm::Witness(input.clone()), &one, &t.src);
    let a1 = RT::prod(&t.src, &one);
    let b1 = RT::prod(&t.tgt, &one);
    let pin_a = Term::new(Tm::Pair(Term::new(Tm::Iden, &t.src, &t.src), inspect_term(&t.src)), &t.src, &a1);
    let run = Term::new(Tm::Take(t.clone()), &a1, &t.tgt);
    let body = if t.tgt.width() <= 16 {
        let pin_b = Term::new(Tm::Pair(Term::new(Tm::Iden, &t.tgt, &t.tgt), inspect_term(&t.tgt)), &t.tgt, &b1);
        Term::new(Tm::Comp(run, pin_b), &a1, &b1)
    } else {
        run
    };
    let tgt = body.tgt.clone();
    Term::new(Tm::Comp(w, Term::new(Tm::Comp(pin_a, body), &t.src, &tgt)), &one, &tgt)
}

/// inspect_T : T -> 1, whose principal source type is exactly T (cf. C12)
fn inspect_term(t: &std::rc::Rc<crate::reference::tyval::RT>) -> std::rc::Rc<crate::reference::eval::Term> {
    use crate::reference::eval::{Term, Tm};
    use crate::reference::tyval::RT;
    let one = RT::unit();
    match &**t {
        RT::Unit => Term::new(Tm::Unit, t, &one),
        RT::Sum(a, b) => {
            let t1 = RT::prod(t, &one);
            let p = Term::new(Tm::Pair(Term::new(Tm::Iden, t, t), Term::new(Tm::Unit, t, &one)), t, &t1);
            let l = Term::new(Tm::Take(inspect_term(a)), &RT::prod(a, &one), &one);
            let r = Term::new(Tm::Take(inspect_term(b)), &RT::prod(b, &one), &one);
            let c = Term::new(Tm::Case(l, r), &t1, &one);
            Term::new(Tm::Comp(p, c), t, &one)
        }
        RT::Prod(a, b) => {
            let oo = RT::prod(&one, &one);
            let p = Term::new(Tm::Pair(Term::new(Tm::Take(inspect_term(a)), t, &one), Term::new(Tm::Drop(inspect_term(b)), t, &one)), t, &oo);
            Term::new(Tm::Comp(p, Term::new(Tm::Unit, &oo, &one)), t, &one)
        }
    }
}

/// `comp witness(input) t : 1 -> B` for the disconnect and crossed-profile terms of C05/C07, as bare
/// expressions: both evaluators must produce the same output bits (a verdict-only comparison cannot
/// see a frame that is sized or placed wrongly unless some consumer happens to fail on it).
fn leg_term_outputs(ctx: &Ctx, out: &mut Out, envs_: &[(String, envs::Built)]) {
    use crate::props::c05::{asymmetric_terms, disconnect_terms, inputs_of};
    use crate::reference::eval::{Term, Tm};
    use crate::reference::tyval::{RT, RV};
    use crate::space::terms::Builder;
    let leg = "term-outputs";
    let mut b = Builder::with_family(Fam::Elements);
    // (C refuses fail nodes by design)
    fn has_fail(t: &Term) -> bool {
        match &t.tm {
            Tm::Fail(_) => true,
            Tm::InjL(s) | Tm::InjR(s) | Tm::Take(s) | Tm::Drop(s) | Tm::AssertL(s, _) | Tm::AssertR(_, s) => has_fail(s),
            Tm::Comp(a, b) | Tm::Case(a, b) | Tm::Pair(a, b) | Tm::Disconnect(a, b) => has_fail(a) || has_fail(b),
            _ => false,
        }
    }
    let mut terms: Vec<(String, std::rc::Rc<Term>)> = disconnect_terms(ctx.tier).into_iter().filter(|t| !has_fail(t)).map(|t| (t.describe(), t)).collect();
    terms.extend(asymmetric_terms());
    // every small term with a case, assertion, composition or pair in it, followed by a second read of its
    // input (pair t iden): what a combinator leaves behind in the read frame is visible to both evaluators
    {
        use crate::space::terms::{place, Place, Universe};
        fn interesting(t: &Term) -> bool {
            match &t.tm {
                Tm::Case(..) | Tm::Comp(..) | Tm::Pair(..) | Tm::AssertL(..) | Tm::AssertR(..) => true,
                Tm::InjL(s) | Tm::InjR(s) | Tm::Take(s) | Tm::Drop(s) => interesting(s),
                _ => false,
            }
        }
        let mut u = Universe::new(2, true);
        let nt = u.types.len();
        for a in 0..nt {
            for d in 0..nt {
                for size in 2..=ctx.tier.pick(3, 4) {
                    for t in u.gen(a, d, size).iter() {
                        if interesting(t) && !has_fail(t) && !matches!(t.tm, Tm::Witness(_)) {
                            terms.push((format!("{} then iden", t.describe()), place(t, Place::ThenReread)));
                        }
                    }
                }
            }
        }
    }
    let env = &envs_[0].1.env;
    for (name, t) in terms {
        if !ctx.mine() {
            continue;
        }
        for input in inputs_of(&t.src) {
            let label = || format!("comp witness[{input}] ({name}) : 1 -> {}", t.tgt);
            if !ctx.begin(leg, &label) {
                continue;
            }
            out.evaluations += 1;
            out.states += 1;
            out.nontrivial += 1;
            out.transitions += 2;
            let res = guard(|| -> Result<&'static str, (String, String)> {
                let prog = pinned_expression(&t, &input);
                let r = b.redeem(&prog).map_err(|e| ("term-outputs:build".to_string(), e))?;
                let (pb, wb) = r.to_vec_with_witness();
                // the harness pins every arrow to the term's annotation; only programs for which that
                // is the principal typing serialise to bytes that mean the same program (quantifier)
                b.pin = false;
                let free = guard(|| b.redeem(&prog));
                b.pin = true;
                match free {
                    // (the identity root does not see types inside an expression: compare the annotated root and the bytes too)
                    Ok(Ok(f)) if f.ihr() == r.ihr() && f.amr() == r.amr() && f.arrow().target == r.arrow().target && f.to_vec_with_witness() == r.to_vec_with_witness() => {}
                    _ => return Ok("skipped:annotation-is-not-the-principal-typing"),
                }
                let mut cp = c_check_expr(&pb, &wb).map_err(|(c, st)| ("c-rejects-expression".to_string(), format!("{} at {st}", err_name(c))))?;
                let nbits = r.arrow().target.bit_width();
                if cp.root_target_bits() != nbits || cp.root_source_bits() != 0 {
                    return Err(("term-outputs:types".into(), "C and Rust infer different root types".into()));
                }
                let (code, cbits) = cp.eval_output(Some(env.c_tx_env()), nbits);
                let mut mac = BitMachine::for_program(&r).map_err(|x| ("rust-unexpected".to_string(), x.to_string()))?;
                let rres = mac.exec(&r, env);
                match (err_name(code), rres) {
                    ("NoError", Ok(v)) => {
                        let rv = RV::from_value(&v).map_err(|x| ("term-outputs:value".to_string(), x))?;
                        let want = rv.padded(&RT::from_final(&r.arrow().target));
                        if cbits.len() != want.len() || want.iter().zip(&cbits).any(|(w, c)| w.map(|w| w != *c).unwrap_or(false)) {
                            return Err(("term-outputs:differ".into(), format!("C output {} Rust output {rv}", crate::reference::bits::bits_str(&cbits))));
                        }
                        Ok("same-output")
                    }
                    ("ExecJet", Err(ExecutionError::JetFailed(_))) => Ok("both-jet-failure"),
                    ("ExecAssert", Err(ExecutionError::ReachedPrunedBranch(_))) => Ok("both-assertion"),
                    ("ExecMemory" | "ExecBudget" | "Malloc", _) => Ok("outside-c-limits"),
                    (c, r2) => Err((format!("term-outputs:verdict:c-{c}"), format!("C {c}, Rust {:?}", r2.map(|_| "ok").map_err(|e| e.to_string())))),
                }
            });
            match res {
                Ok(Ok(o)) => {
                    out.outcome(o);
                    out.count(&format!("term-outputs:{o}"), 1);
                    out.sample(leg, || (label(), o.to_string()));
                }
                Ok(Err((c, d))) => out.violation(&c, leg, label(), d),
                Err(pn) => out.violation(&panic_class(&pn), leg, label(), pn),
            }
            ctx.end();
        }
    }
}
