//! C15 - the Elements environment shown to jets is the supplied transaction.
//! E (one/two deviations from a base environment) x every index in [0, n+1] x the field jets,
//! each executed as `comp (witness index) jet` on the real machine; expected values are computed
//! from the Rust-side transaction data, never from the marshalled C structures.

use crate::engine::{guard, panic_class, Ctx, Out, PropDef, Tier};
use crate::reference::sha::sha256;
use crate::reference::tyval::*;
use crate::space::dag::*;
use crate::space::envs::{self, Built, EnvSpec};
use simplicity::elements::confidential::{Asset, Nonce, Value as CValue};
use simplicity::elements::encode::serialize;
use simplicity::elements::{AssetId, ContractHash, OutPoint};
use simplicity::node::{CoreConstructible, WitnessConstructible};
use simplicity::{types, BitMachine};
use std::rc::Rc;

pub static DEF: PropDef = PropDef {
    id: "C15",
    run,
    rule: "states = distinct (environment, jet, index) triples; transitions = jet executions on the real Bit Machine compared with the value computed from the Rust-side transaction; non-trivial = every triple (each is a different field or a different index of a different environment)",
    assumptions: &[
        "well-formed environments only: utxos.len() == inputs.len(), ix < inputs.len(), pegin flag consistent with the pegin witness, annex carried as the last of >= 2 witness stack items",
        "annex hash = SHA-256 of the bytes after the 0x50 tag; range/surjection proof hashes are of the proof bytes when the corresponding amount/asset is confidential and of the empty string otherwise (libsimplicity's definition)",
        "issuance entropy / asset / token ids are computed with the `elements` crate (an independent implementation)",
    ],
    shards: (32, 128),
    budget_ms: (60_000, 180_000),
};

fn h256(b: &[u8]) -> Rc<RV> {
    assert_eq!(b.len(), 32);
    RV::word_bytes(b)
}
fn u32v(x: u32) -> Rc<RV> {
    RV::word(5, x as u128)
}
fn u64v(x: u64) -> Rc<RV> {
    RV::word(6, x as u128)
}
fn some(x: Rc<RV>) -> Rc<RV> {
    RV::r(&x)
}
fn none() -> Rc<RV> {
    RV::l(&RV::unit())
}
fn point(ser: &[u8]) -> Rc<RV> {
    // 33-byte commitment: (parity bit, x)
    RV::pair(&RV::bit(ser[0] & 1 == 1), &h256(&ser[1..33]))
}
fn conf_asset(a: &Asset) -> Rc<RV> {
    match a {
        Asset::Null => RV::l(&RV::pair(&RV::bit(false), &h256(&[0; 32]))),
        Asset::Explicit(_) => RV::r(&h256(&serialize(a)[1..33])),
        Asset::Confidential(_) => RV::l(&point(&serialize(a))),
    }
}
fn conf_amount(v: &CValue) -> Rc<RV> {
    match v {
        CValue::Null => RV::r(&u64v(0)),
        CValue::Explicit(x) => RV::r(&u64v(*x)),
        CValue::Confidential(_) => RV::l(&point(&serialize(v))),
    }
}
fn opt_nonce(n: &Nonce) -> Rc<RV> {
    match n {
        Nonce::Null => none(),
        Nonce::Explicit(b) => some(RV::r(&h256(b))),
        Nonce::Confidential(_) => some(RV::l(&point(&serialize(n)))),
    }
}

#[derive(Clone, Debug)]
enum Arg {
    None,
    U32(u32),
    U8(u8),
    U32x2(u32, u32),
    H256([u8; 32]),
}

/// expected output of `jet(arg)` from the Rust-side data
fn expected(jet: &str, arg: &Arg, b: &Built, spec: &EnvSpec) -> Option<Rc<RV>> {
    let tx = &b.tx;
    let nin = tx.input.len() as u32;
    let nout = tx.output.len() as u32;
    let is_final = tx.input.iter().all(|i| i.sequence.to_consensus_u32() == u32::MAX);
    let lt = tx.lock_time.to_consensus_u32();
    // "current_x" = input_x(ix) without the outer option
    if let Some(base) = jet.strip_prefix("current_") {
        if base == "index" {
            return Some(u32v(spec.ix));
        }
        let full = match base {
            "issuance_asset_amount" | "issuance_token_amount" | "issuance_asset_proof" | "issuance_token_proof" | "reissuance_blinding" | "reissuance_entropy" | "new_issuance_contract" => base.to_string(),
            _ => format!("input_{base}"),
        };
        let v = expected(&full, &Arg::U32(spec.ix), b, spec)?;
        return match &*v {
            RV::R(inner) => Some(inner.clone()),
            _ => None,
        };
    }
    let in_at = |i: u32| -> Option<(&simplicity::elements::TxIn, &simplicity::jet::elements::ElementsUtxo)> { if i < nin { Some((&tx.input[i as usize], &b.utxos[i as usize])) } else { None } };
    let opt = |x: Option<Rc<RV>>| x.map(some).unwrap_or_else(none);
    let empty_hash = sha256(&[]);
    // issuance classification as the consensus rules have it
    #[derive(PartialEq)]
    enum Iss {
        No,
        New,
        Re,
    }
    let iss_of = |i: &simplicity::elements::TxIn| {
        if i.asset_issuance.amount.is_null() && i.asset_issuance.inflation_keys.is_null() {
            Iss::No
        } else if i.asset_issuance.asset_blinding_nonce.to_byte_array() == [0u8; 32] {
            Iss::New
        } else {
            Iss::Re
        }
    };
    let entropy_of = |i: &simplicity::elements::TxIn| -> [u8; 32] {
        match iss_of(i) {
            Iss::New => AssetId::generate_asset_entropy(OutPoint { txid: i.previous_output.txid, vout: i.previous_output.vout }, ContractHash::from_byte_array(i.asset_issuance.asset_entropy.to_byte_array())).to_byte_array(),
            _ => i.asset_issuance.asset_entropy.to_byte_array(),
        }
    };
    Some(match (jet, arg) {
        ("version", Arg::None) => u32v(tx.version),
        ("lock_time", Arg::None) => u32v(lt),
        ("num_inputs", Arg::None) => u32v(nin),
        ("num_outputs", Arg::None) => u32v(nout),
        ("genesis_block_hash", Arg::None) => h256(&b.genesis),
        ("script_cmr", Arg::None) => h256(&b.script_cmr),
        ("internal_key", Arg::None) => h256(&b.control_block_bytes[1..33]),
        ("tapleaf_version", Arg::None) => RV::word(3, (b.control_block_bytes[0] & 0xfe) as u128),
        ("tappath", Arg::U8(i)) => {
            let steps = (b.control_block_bytes.len() - 33) / 32;
            opt(if (*i as usize) < steps { Some(h256(&b.control_block_bytes[33 + 32 * *i as usize..65 + 32 * *i as usize])) } else { None })
        }
        ("transaction_id", Arg::None) => h256(&tx.txid().to_byte_array()),
        ("tx_is_final", Arg::None) => RV::bit(is_final),
        ("tx_lock_height", Arg::None) => u32v(if !is_final && lt < 500_000_000 { lt } else { 0 }),
        ("tx_lock_time", Arg::None) => u32v(if !is_final && lt >= 500_000_000 { lt } else { 0 }),
        ("input_prev_outpoint", Arg::U32(i)) => opt(in_at(*i).map(|(x, _)| RV::pair(&h256(&x.previous_output.txid.to_byte_array()), &u32v(x.previous_output.vout)))),
        ("input_asset", Arg::U32(i)) => opt(in_at(*i).map(|(_, u)| conf_asset(&u.asset))),
        ("input_amount", Arg::U32(i)) => opt(in_at(*i).map(|(_, u)| RV::pair(&conf_asset(&u.asset), &conf_amount(&u.value)))),
        ("input_script_hash", Arg::U32(i)) => opt(in_at(*i).map(|(_, u)| h256(&sha256(u.script_pubkey.as_bytes())))),
        ("input_sequence", Arg::U32(i)) => opt(in_at(*i).map(|(x, _)| u32v(x.sequence.to_consensus_u32()))),
        ("input_script_sig_hash", Arg::U32(i)) => opt(in_at(*i).map(|(x, _)| h256(&sha256(x.script_sig.as_bytes())))),
        ("input_annex_hash", Arg::U32(i)) => opt(in_at(*i).map(|_| {
            let a = &spec.inputs[*i as usize].annex;
            opt(a.as_ref().map(|bytes| h256(&sha256(bytes))))
        })),
        ("input_pegin", Arg::U32(i)) => opt(in_at(*i).map(|_| opt(if spec.inputs[*i as usize].pegin { Some(h256(&envs::ramp(0x6f))) } else { None }))),
        ("issuance", Arg::U32(i)) => opt(in_at(*i).map(|(x, _)| match iss_of(x) {
            Iss::No => none(),
            Iss::New => some(RV::bit(false)),
            Iss::Re => some(RV::bit(true)),
        })),
        ("issuance_entropy", Arg::U32(i)) => opt(in_at(*i).map(|(x, _)| opt(if iss_of(x) != Iss::No { Some(h256(&entropy_of(x))) } else { None }))),
        ("issuance_asset", Arg::U32(i)) => opt(in_at(*i).map(|(x, _)| {
            opt(if iss_of(x) != Iss::No { Some(h256(&AssetId::from_entropy(simplicity::elements::AssetEntropy::from_byte_array(entropy_of(x))).to_byte_array())) } else { None })
        })),
        ("issuance_token", Arg::U32(i)) => opt(in_at(*i).map(|(x, _)| {
            let conf = matches!(x.asset_issuance.amount, CValue::Confidential(_));
            opt(if iss_of(x) != Iss::No { Some(h256(&AssetId::reissuance_token_from_entropy(simplicity::elements::AssetEntropy::from_byte_array(entropy_of(x)), conf).to_byte_array())) } else { None })
        })),
        ("issuance_asset_amount", Arg::U32(i)) => opt(in_at(*i).map(|(x, _)| opt(if iss_of(x) != Iss::No { Some(conf_amount(&x.asset_issuance.amount)) } else { None }))),
        ("issuance_token_amount", Arg::U32(i)) => opt(in_at(*i).map(|(x, _)| {
            opt(match iss_of(x) {
                Iss::No => None,
                Iss::New => Some(conf_amount(&x.asset_issuance.inflation_keys)),
                Iss::Re => Some(RV::r(&u64v(0))),
            })
        })),
        ("issuance_asset_proof", Arg::U32(i)) => opt(in_at(*i).map(|(x, _)| {
            let conf = iss_of(x) != Iss::No && matches!(x.asset_issuance.amount, CValue::Confidential(_));
            h256(&if conf { sha256(&x.witness.amount_rangeproof.to_vec()) } else { empty_hash })
        })),
        ("issuance_token_proof", Arg::U32(i)) => opt(in_at(*i).map(|(x, _)| {
            let conf = iss_of(x) == Iss::New && matches!(x.asset_issuance.inflation_keys, CValue::Confidential(_));
            h256(&if conf { sha256(&x.witness.inflation_keys_rangeproof.to_vec()) } else { empty_hash })
        })),
        ("reissuance_blinding", Arg::U32(i)) => opt(in_at(*i).map(|(x, _)| opt(if iss_of(x) == Iss::Re { Some(h256(&x.asset_issuance.asset_blinding_nonce.to_byte_array())) } else { None }))),
        ("reissuance_entropy", Arg::U32(i)) => opt(in_at(*i).map(|(x, _)| opt(if iss_of(x) == Iss::Re { Some(h256(&x.asset_issuance.asset_entropy.to_byte_array())) } else { None }))),
        ("new_issuance_contract", Arg::U32(i)) => opt(in_at(*i).map(|(x, _)| opt(if iss_of(x) == Iss::New { Some(h256(&x.asset_issuance.asset_entropy.to_byte_array())) } else { None }))),
        ("output_asset", Arg::U32(i)) => opt(tx.output.get(*i as usize).map(|o| conf_asset(&o.asset))),
        ("output_amount", Arg::U32(i)) => opt(tx.output.get(*i as usize).map(|o| RV::pair(&conf_asset(&o.asset), &conf_amount(&o.value)))),
        ("output_nonce", Arg::U32(i)) => opt(tx.output.get(*i as usize).map(|o| opt_nonce(&o.nonce))),
        ("output_script_hash", Arg::U32(i)) => opt(tx.output.get(*i as usize).map(|o| h256(&sha256(o.script_pubkey.as_bytes())))),
        ("output_is_fee", Arg::U32(i)) => opt(tx.output.get(*i as usize).map(|o| RV::bit(o.script_pubkey.is_empty() && matches!(o.asset, Asset::Explicit(_)) && matches!(o.value, CValue::Explicit(_))))),
        ("output_surjection_proof", Arg::U32(i)) => opt(tx.output.get(*i as usize).map(|o| h256(&if matches!(o.asset, Asset::Confidential(_)) { sha256(&o.witness.surjection_proof.to_vec()) } else { empty_hash }))),
        ("output_range_proof", Arg::U32(i)) => opt(tx.output.get(*i as usize).map(|o| h256(&if matches!(o.value, CValue::Confidential(_)) { sha256(&o.witness.rangeproof.to_vec()) } else { empty_hash }))),
        ("output_null_datum", Arg::U32x2(i, j)) => {
            // S (S ((2^2 x 2^256) + (2 + 2^4)))
            let o = tx.output.get(*i as usize);
            let parsed = o.and_then(|o| parse_null_data(o.script_pubkey.as_bytes()));
            match parsed {
                None => none(),
                Some(ops) => some(match ops.get(*j as usize) {
                    None => none(),
                    Some(NullOp::Push(kind, data)) => some(RV::l(&RV::pair(&RV::word(1, *kind as u128), &h256(&sha256(data))))),
                    Some(NullOp::Small(n)) => some(RV::r(&RV::r(&RV::word(2, *n as u128)))),
                    Some(NullOp::Neg1) => some(RV::r(&RV::l(&RV::bit(false)))),
                    Some(NullOp::Reserved) => some(RV::r(&RV::l(&RV::bit(true)))),
                }),
            }
        }
        ("total_fee", Arg::H256(id)) => {
            let mut sum: u64 = 0;
            for o in &tx.output {
                if o.script_pubkey.is_empty() {
                    if let (Asset::Explicit(_), CValue::Explicit(v)) = (&o.asset, &o.value) {
                        if serialize(&o.asset)[1..33] == id[..] {
                            sum = sum.wrapping_add(*v);
                        }
                    }
                }
            }
            u64v(sum)
        }
        ("sig_all_hash", Arg::None) => h256(&b.env.c_tx_env().sighash_all().to_byte_array()),
        _ => return None,
    })
}

enum NullOp {
    Push(u8, Vec<u8>),
    Small(u8),
    Neg1,
    Reserved,
}

/// OP_RETURN followed only by pushes (data pushes and OP_1NEGATE / OP_RESERVED / OP_1..OP_16)
fn parse_null_data(s: &[u8]) -> Option<Vec<NullOp>> {
    if s.is_empty() || s[0] != 0x6a {
        return None;
    }
    let mut i = 1;
    let mut ops = vec![];
    while i < s.len() {
        let code = s[i];
        i += 1;
        if code > 0x60 {
            return None;
        }
        if code >= 0x4f {
            ops.push(match code {
                0x4f => NullOp::Neg1,
                0x50 => NullOp::Reserved,
                c => NullOp::Small(c - 0x51),
            });
            continue;
        }
        let (kind, len) = if code < 0x4c {
            (0u8, code as usize)
        } else if code == 0x4c {
            let l = *s.get(i)? as usize;
            i += 1;
            (1, l)
        } else if code == 0x4d {
            let l = *s.get(i)? as usize | (*s.get(i + 1)? as usize) << 8;
            i += 2;
            (2, l)
        } else {
            let l = *s.get(i)? as usize | (*s.get(i + 1)? as usize) << 8 | (*s.get(i + 2)? as usize) << 16 | (*s.get(i + 3)? as usize) << 24;
            i += 4;
            (3, l)
        };
        if s.len() - i < len {
            return None;
        }
        ops.push(NullOp::Push(kind, s[i..i + len].to_vec()));
        i += len;
    }
    Some(ops)
}

fn arg_value(a: &Arg) -> Option<(Rc<RT>, Rc<RV>)> {
    Some(match a {
        Arg::None => return None,
        Arg::U32(x) => (RT::word(5), RV::word(5, *x as u128)),
        Arg::U8(x) => (RT::word(3), RV::word(3, *x as u128)),
        Arg::U32x2(x, y) => (RT::prod(&RT::word(5), &RT::word(5)), RV::pair(&RV::word(5, *x as u128), &RV::word(5, *y as u128))),
        Arg::H256(h) => (RT::word(8), RV::word_bytes(h)),
    })
}

/// run `comp (witness arg) jet` (or the bare jet) on the real machine
fn run_jet(name: &str, arg: &Arg, env: &envs::Env) -> Result<Rc<RV>, String> {
    let fam = Fam::Elements;
    let r = types::Context::with_context(|ctx| {
        let j = CNode::jet(&ctx, fam.jet(fam.find(name)).as_ref());
        let root = match arg_value(arg) {
            None => j,
            Some((t, v)) => {
                let w = CNode::witness(&ctx, Some(v.to_value(&t)));
                CNode::comp(&w, &j).map_err(|e| e.to_string())?
            }
        };
        root.finalize_unpruned().map_err(|e| e.to_string())
    })?;
    let mut mac = BitMachine::for_program(&r).map_err(|e| e.to_string())?;
    let v = mac.exec(&r, env).map_err(|e| format!("execution failed: {e}"))?;
    RV::from_value(&v)
}

fn jets_and_args(b: &Built) -> Vec<(&'static str, Arg)> {
    let nin = b.tx.input.len() as u32;
    let nout = b.tx.output.len() as u32;
    let mut v: Vec<(&'static str, Arg)> = vec![];
    for j in ["version", "lock_time", "num_inputs", "num_outputs", "genesis_block_hash", "script_cmr", "internal_key", "tapleaf_version", "transaction_id", "tx_is_final", "tx_lock_height", "tx_lock_time", "sig_all_hash", "current_index",
              "current_pegin", "current_prev_outpoint", "current_asset", "current_amount", "current_script_hash", "current_sequence", "current_reissuance_blinding", "current_new_issuance_contract", "current_reissuance_entropy",
              "current_issuance_asset_amount", "current_issuance_token_amount", "current_issuance_asset_proof", "current_issuance_token_proof", "current_script_sig_hash", "current_annex_hash"] {
        v.push((j, Arg::None));
    }
    for j in ["input_prev_outpoint", "input_asset", "input_amount", "input_script_hash", "input_sequence", "input_script_sig_hash", "input_annex_hash", "input_pegin", "issuance", "issuance_entropy", "issuance_asset", "issuance_token",
              "issuance_asset_amount", "issuance_token_amount", "issuance_asset_proof", "issuance_token_proof", "reissuance_blinding", "reissuance_entropy", "new_issuance_contract"] {
        for i in (0..=nin + 1).chain([u32::MAX, 1 << 31]) {
            v.push((j, Arg::U32(i)));
        }
    }
    for j in ["output_asset", "output_amount", "output_nonce", "output_script_hash", "output_is_fee", "output_surjection_proof", "output_range_proof"] {
        for i in (0..=nout + 1).chain([u32::MAX]) {
            v.push((j, Arg::U32(i)));
        }
    }
    for i in 0..=nout {
        for jx in 0..4 {
            v.push(("output_null_datum", Arg::U32x2(i, jx)));
        }
    }
    for i in [0u8, 1, 2, 3, 127, 128, 255] {
        v.push(("tappath", Arg::U8(i)));
    }
    // total_fee for every asset that occurs, and one that does not
    let mut ids: Vec<[u8; 32]> = vec![envs::ramp(0x99)];
    for o in &b.tx.output {
        if let Asset::Explicit(_) = o.asset {
            let s = serialize(&o.asset);
            ids.push(s[1..33].try_into().unwrap());
        }
    }
    ids.sort();
    ids.dedup();
    for id in ids {
        v.push(("total_fee", Arg::H256(id)));
    }
    v
}

fn run(ctx: &Ctx, out: &mut Out) {
    let leg = "fields";
    let mut specs = envs::one_deviation_envs();
    specs.extend(envs::positional_envs());
    if ctx.tier == Tier::Thorough {
        specs.extend(envs::two_deviation_envs());
    }
    for (ename, spec) in &specs {
        if !ctx.mine() {
            continue;
        }
        let b = match guard(|| envs::build(spec)) {
            Ok(b) => b,
            Err(e) => {
                out.violation("env:build-panics", leg, ename.clone(), e);
                continue;
            }
        };
        // the environment's own accessors return what was supplied
        {
            let label = || format!("env[{ename}] accessors tx / ix / control_block / annex / genesis_hash");
            if ctx.begin(leg, &label) {
                out.evaluations += 1;
                out.states += 1;
                out.transitions += 5;
                let want_annex = spec.inputs.get(spec.ix as usize).and_then(|i| i.annex.clone());
                let r = guard(|| {
                    use simplicity::bitcoin::hashes::Hash as _;
                    let e = &b.env;
                    if *e.tx() != *b.tx {
                        return Some("tx() is not the supplied transaction");
                    }
                    if e.ix() != spec.ix {
                        return Some("ix() is not the supplied index");
                    }
                    if e.control_block().serialize() != b.control_block_bytes {
                        return Some("control_block() is not the supplied control block");
                    }
                    if e.annex().cloned() != want_annex {
                        return Some("annex() is not the supplied annex");
                    }
                    if e.genesis_hash().to_byte_array() != b.genesis {
                        return Some("genesis_hash() is not the supplied hash");
                    }
                    None
                });
                match r {
                    Ok(None) => out.outcome("accessors:ok"),
                    Ok(Some(d)) => out.violation("field:accessor", leg, label(), d.into()),
                    Err(p) => out.violation(&panic_class(&p), leg, label(), p),
                }
                ctx.end();
            }
        }
        for (jet, arg) in jets_and_args(&b) {
            let label = || format!("env[{ename}] {jet}({arg:?})");
            if !ctx.begin(leg, &label) {
                continue;
            }
            out.evaluations += 1;
            out.states += 1;
            out.transitions += 1;
            out.nontrivial += 1;
            let want = expected(jet, &arg, &b, spec);
            let got = guard(|| run_jet(jet, &arg, &b.env));
            match (want, got) {
                (None, _) => out.violation("oracle:missing", leg, label(), "the reference has no definition for this jet/argument".into()),
                (Some(w), Ok(Ok(g))) => {
                    if w == g {
                        out.outcome(jet);
                        out.sample(leg, || (label(), format!("jet returns the expected value")));
                    } else {
                        let (ws, gs) = (w.to_string(), g.to_string());
                        let short = |s: String| if s.len() > 400 { format!("{}..", &s[..400]) } else { s };
                        out.violation(&format!("field:{jet}"), leg, label(), format!("jet returns {}, the transaction says {}", short(gs), short(ws)));
                    }
                }
                (Some(_), Ok(Err(e))) => out.violation(&format!("field:{jet}:exec"), leg, label(), e),
                (Some(_), Err(p)) => out.violation(&panic_class(&p), leg, label(), p),
            }
            ctx.end();
        }
    }
}
