//! C02 - the decoder is total and accepts only the canonical encoding.

use crate::engine::{alloc, guard, panic_class, Ctx, Out, PropDef, Tier};
use crate::props::c01::sigma_p;
use crate::props::c03::mutations;
use crate::reference::bits::*;
use crate::reference::codec::*;
use crate::space::dag::*;
use crate::space::programs::*;
use simplicity::jet::{Core, Elements};
use simplicity::node::{CommitNode, ConstructNode, RedeemNode};
use simplicity::{types, BitIter};

pub static DEF: PropDef = PropDef {
    id: "C02",
    run,
    rule: "states = distinct (decoder, family, program bytes, witness bytes) inputs; transitions = decoder calls (+ re-encoding of every accepted input); non-trivial = input gets past the length prefix (reference codec parses at least one node) or is a deviation of a valid encoding",
    assumptions: &[
        "allocation budget per decode: 48 MiB + 4 KiB per input byte (the library documents a 32 MiB initial cap for one value)",
        "commit-time re-encoding clause only for inputs without a binary disconnect node; ConstructNode::decode is checked for totality only (construct nodes have no sharing identity, so their re-encoding is unshared by design)",
        "structural deviations are never required to be rejected: the oracle is 'accepted => re-encodes to the input'",
    ],
    shards: (32, 128),
    budget_ms: (60_000, 180_000),
};

#[derive(Clone, Copy, Debug, PartialEq, Eq)]
enum Dec {
    Redeem,
    Commit,
    Construct,
}

/// One decoder call under the allocation meter. Ok(Some(reencoded)) if accepted.
fn decode_with(dec: Dec, fam: Fam, prog: &[u8], wit: &[u8]) -> Result<Option<(Vec<u8>, Vec<u8>)>, (String, String)> {
    let base = alloc::mark();
    let res: Option<(Vec<u8>, Vec<u8>)> = match (dec, fam) {
        (Dec::Redeem, Fam::Core) => RedeemNode::decode::<_, _, Core>(BitIter::from(prog), BitIter::from(wit)).ok().map(|p| p.to_vec_with_witness()),
        (Dec::Redeem, Fam::Elements) => RedeemNode::decode::<_, _, Elements>(BitIter::from(prog), BitIter::from(wit)).ok().map(|p| p.to_vec_with_witness()),
        (Dec::Commit, Fam::Core) => CommitNode::decode::<_, Core>(BitIter::from(prog)).ok().map(|p| (p.to_vec_without_witness(), vec![])),
        (Dec::Commit, Fam::Elements) => CommitNode::decode::<_, Elements>(BitIter::from(prog)).ok().map(|p| (p.to_vec_without_witness(), vec![])),
        (Dec::Construct, Fam::Core) => types::Context::with_context(|ctx| ConstructNode::decode::<_, Core>(&ctx, BitIter::from(prog)).ok().map(|_| (vec![], vec![]))),
        (Dec::Construct, Fam::Elements) => types::Context::with_context(|ctx| ConstructNode::decode::<_, Elements>(&ctx, BitIter::from(prog)).ok().map(|_| (vec![], vec![]))),
    };
    let peak = alloc::peak_since(base);
    let allowance = (48 << 20) + 4096 * (prog.len() + wit.len());
    if peak > allowance {
        return Err(("alloc:unbounded".into(), format!("{dec:?} decode of {} + {} bytes allocated {} bytes (allowance {})", prog.len(), wit.len(), peak, allowance)));
    }
    Ok(res)
}

fn check_input(dec: Dec, fam: Fam, prog: &[u8], wit: &[u8], jets: &JetCodes, out: &mut Out) -> Result<bool, (String, String)> {
    out.transitions += 1;
    let r = decode_with(dec, fam, prog, wit)?;
    match r {
        None => {
            out.outcome("rejected");
            Ok(false)
        }
        Some((p2, w2)) => {
            out.transitions += 1;
            match dec {
                Dec::Redeem => {
                    if p2 != prog || w2 != wit {
                        return Err(("canon:redeem-reencode".into(), format!("accepted, but re-encodes as {} / {}", hex(&p2), hex(&w2))));
                    }
                }
                Dec::Commit => {
                    let has_disc = matches!(ref_decode(&bytes_to_bits(prog), jets), Ok((nodes, _)) if nodes.iter().any(|n| matches!(n, WNode::Disc(..))));
                    if has_disc {
                        out.outcome("commit:accepted-with-attached-branch(excluded)");
                    } else if p2 != prog {
                        return Err(("canon:commit-reencode".into(), format!("accepted, but re-encodes as {}", hex(&p2))));
                    }
                }
                Dec::Construct => {}
            }
            out.outcome("accepted");
            Ok(true)
        }
    }
}

fn run(ctx: &Ctx, out: &mut Out) {
    leg_bytes(ctx, out);
    leg_witness_bytes(ctx, out);
    leg_witness_typed(ctx, out);
    leg_twins(ctx, out);
    leg_deviations(ctx, out);
    leg_magnitude(ctx, out);
}

fn one(ctx: &Ctx, out: &mut Out, leg: &str, dec: Dec, fam: Fam, prog: &[u8], wit: &[u8], note: &str, jets: &JetCodes, nontrivial: bool) -> bool {
    let label = || format!("{dec:?}/{} prog={} wit={}{}", fam.name(), hex(prog), hex(wit), note);
    if !ctx.begin(leg, &label) {
        return false;
    }
    out.evaluations += 1;
    out.states += 1;
    let mut acc = false;
    match guard(|| check_input(dec, fam, prog, wit, jets, out)) {
        Ok(Ok(a)) => {
            acc = a;
            if nontrivial || a {
                out.nontrivial += 1;
            }
            if a {
                out.sample(leg, || (label(), "accepted and re-encodes to the input".into()));
            }
        }
        Ok(Err((c, d))) => out.violation(&c, leg, label(), d),
        Err(p) => out.violation(&panic_class(&p), leg, label(), p),
    }
    ctx.end();
    acc
}

fn leg_bytes(ctx: &Ctx, out: &mut Out) {
    let leg = "bytes";
    let maxlen = ctx.tier.pick(2usize, 3);
    let jc = [JetCodes::new(Fam::Core), JetCodes::new(Fam::Elements)];
    for len in 0..=maxlen {
        let total: u64 = 1 << (8 * len);
        let chunk = 256u64;
        let mut base = 0;
        while base < total {
            if ctx.mine() {
                for x in base..(base + chunk).min(total) {
                    let bytes: Vec<u8> = (0..len).map(|i| (x >> (8 * (len - 1 - i))) as u8).collect();
                    let past_prefix = matches!(ref_decode(&bytes_to_bits(&bytes), &jc[0]), Ok((n, _)) if !n.is_empty()) || matches!(ref_decode(&bytes_to_bits(&bytes), &jc[0]), Err(RefDecErr::Eos));
                    for (fi, fam) in [Fam::Core, Fam::Elements].into_iter().enumerate() {
                        for dec in [Dec::Redeem, Dec::Commit, Dec::Construct] {
                            one(ctx, out, leg, dec, fam, &bytes, &[], "", &jc[fi], past_prefix);
                        }
                    }
                }
            }
            base += chunk;
        }
    }
}

/// programs with one witness node of a given type; every byte string as witness
fn witness_hosts(fam: Fam) -> Vec<Prog> {
    let n = |sym, l, r| Node { sym, l, r };
    let jet = |name: &str| Sym::Jet(fam.find(name));
    let mut v = vec![];
    for name in ["complement_1", "complement_8", "add_8", "eq_256"] {
        // 0=witness 1=jet 2=comp(0,1) 3=unit 4=comp(2,3)
        v.push(vec![n(Sym::Witness, 0, 0), n(jet(name), 0, 0), n(Sym::Comp, 0, 1), n(Sym::Unit, 0, 0), n(Sym::Comp, 2, 3)]);
    }
    // witness : 1 -> 1 + 2^8 via case: comp (pair witness unit) (case unit (comp (take complement_8) unit))
    v.push(vec![
        n(Sym::Witness, 0, 0),
        n(Sym::Unit, 0, 0),
        n(Sym::Pair, 0, 1),
        n(Sym::Unit, 0, 0),
        n(jet("complement_8"), 0, 0),
        n(Sym::Take, 4, 0),
        n(Sym::Unit, 0, 0),
        n(Sym::Comp, 5, 6),
        n(Sym::Case, 3, 7),
        n(Sym::Comp, 2, 8),
    ]);
    // two witnesses of different types: pair (witness:2) (witness: 2^8)
    v.push(vec![
        n(Sym::Witness, 0, 0),
        n(jet("complement_1"), 0, 0),
        n(Sym::Comp, 0, 1),
        n(Sym::Witness, 0, 0),
        n(jet("complement_8"), 0, 0),
        n(Sym::Comp, 3, 4),
        n(Sym::Pair, 2, 5),
        n(Sym::Unit, 0, 0),
        n(Sym::Comp, 6, 7),
    ]);
    v.into_iter().filter_map(|d| Prog::new(&d, fam)).collect()
}

fn leg_witness_bytes(ctx: &Ctx, out: &mut Out) {
    let leg = "witness-bytes";
    let maxlen = ctx.tier.pick(2usize, 3);
    for fam in [Fam::Core, Fam::Elements] {
        let jets = JetCodes::new(fam);
        let hosts = witness_hosts(fam);
        if hosts.len() != 6 {
            out.violation("hosts", leg, fam.name().into(), format!("only {} of 6 witness host programs type-check in the reference", hosts.len()));
        }
        for p in &hosts {
            let none = vec![None; p.dag.len()];
            let Ok(r) = p.to_redeem(&none) else {
                out.violation("hosts", leg, p.render(), "host program does not finalise".into());
                continue;
            };
            let pb = r.to_vec_without_witness();
            for len in 0..=maxlen {
                let total: u64 = 1 << (8 * len);
                let chunk = 1024u64;
                let mut base = 0;
                while base < total {
                    if ctx.mine() {
                        for x in base..(base + chunk).min(total) {
                            let w: Vec<u8> = (0..len).map(|i| (x >> (8 * (len - 1 - i))) as u8).collect();
                            one(ctx, out, leg, Dec::Redeem, fam, &pb, &w, "", &jets, true);
                        }
                    }
                    base += chunk;
                }
            }
        }
    }
}

/// One witness node of every small type (and of every type whose padding flag hangs on one child),
/// its type forced by a consumer that destructs it; every witness byte string up to 2 bytes.
/// Beyond "accepted => re-encodes to the input", the accepted set must be exactly the reference's
/// compact encodings of the type's values, zero-padded to a byte.
fn leg_witness_typed(ctx: &Ctx, out: &mut Out) {
    use crate::props::c12::{host_core as host, Pos};
    use crate::reference::tyval::*;
    use std::collections::BTreeSet;
    let leg = "witness-typed";
    let jets = JetCodes::new(Fam::Core);
    let mut tys = types_upto(ctx.tier.pick(3, 4));
    tys.extend(padding_flag_family(ctx.tier.pick(6, 7)));
    let maxlen = 2usize;
    for t in tys {
        if !ctx.mine() {
            continue;
        }
        if t.width() > 8 * maxlen as u128 {
            out.cap(format!("witness-typed: type {t} is wider than {maxlen} bytes: skipped"));
            continue;
        }
        let zero = RV::zero(&t).to_value(&t);
        let r = guard(|| types::Context::with_context(|c| host(&c, &t, Pos::Executed, Some(zero.shallow_clone())).finalize_unpruned().map(|r| r.to_vec_with_witness().0)));
        let pb = match r {
            Ok(Ok(pb)) => pb,
            Ok(Err(e)) => {
                out.violation("hosts", leg, format!("witness : 1 -> {t}"), format!("host does not finalise: {e}"));
                continue;
            }
            Err(p) => {
                out.violation(&panic_class(&p), leg, format!("witness : 1 -> {t}"), p);
                continue;
            }
        };
        let canonical: BTreeSet<Vec<u8>> = values_of(&t, 1 << 16).0.iter().map(|v| bits_to_bytes(&v.compact())).collect();
        for len in 0..=maxlen {
            for x in 0..(1u64 << (8 * len)) {
                let w: Vec<u8> = (0..len).map(|i| (x >> (8 * (len - 1 - i))) as u8).collect();
                let note = format!(" [witness : 1 -> {t}]");
                let label = || format!("Redeem/core prog={} wit={}{}", hex(&pb), hex(&w), note);
                if !ctx.begin(leg, &label) {
                    continue;
                }
                out.evaluations += 1;
                out.states += 1;
                out.nontrivial += 1;
                let want = canonical.contains(&w);
                match guard(|| check_input(Dec::Redeem, Fam::Core, &pb, &w, &jets, out)) {
                    Ok(Ok(acc)) if acc == want => {
                        if acc {
                            out.sample(leg, || (label(), "accepted, re-encodes to the input, and is the reference's compact encoding of a value of the type".into()));
                        }
                    }
                    Ok(Ok(true)) => out.violation("canon:witness-noncanonical-accepted", leg, label(), "accepted, but is not the compact encoding of any value of the witness type".into()),
                    Ok(Ok(false)) => out.violation("canon:witness-canonical-rejected", leg, label(), "the compact encoding of a value of the witness type is rejected".into()),
                    Ok(Err((c, d))) => out.violation(&c, leg, label(), d),
                    Err(p) => out.violation(&panic_class(&p), leg, label(), p),
                }
                ctx.end();
            }
        }
    }
}

/// Identity twins: two separate nodes with the same structure and the same arrow (hence the same
/// identity hash: the encoder emits one of them) that differ only in a type *inside* the expression,
/// the free summand of an injection, which the surrounding program pins differently on each side:
///
///   side(M, w) = comp (comp (inj unit) u) (comp (inj' w) u)      u = unit : 1+M -> 1 (or M+1 -> 1)
///   main       = comp side(M1, w1) side(M2, w2)
///
/// The pointer form of this program (both twins emitted) is in canonical order, has no unused node
/// and clean padding; its only flaw is the unshared twin. It must be rejected (or re-encode to
/// itself); the shared form must be accepted.
fn leg_twins(ctx: &Ctx, out: &mut Out) {
    let leg = "twins";
    if !ctx.mine() {
        return;
    }
    let fam = Fam::Core;
    let jets = JetCodes::new(fam);
    let n = |sym, l: usize, r: usize| Node { sym, l: l as u8, r: r as u8 };
    let words = [Sym::Word(0, 1), Sym::Word(1, 2), Sym::Word(2, 9)];
    for left_inj in [true, false] {
        for a in 0..words.len() {
            for b in 0..words.len() {
                if a == b {
                    continue;
                }
                let (inj, other) = if left_inj { (Sym::InjL, Sym::InjR) } else { (Sym::InjR, Sym::InjL) };
                let mut dag: Dag = vec![n(Sym::Unit, 0, 0)];
                let mut sides = vec![];
                for w in [words[a], words[b]] {
                    let base = dag.len();
                    dag.push(n(inj, 0, 0)); // base: inj unit
                    dag.push(n(Sym::Unit, 0, 0)); // base+1: u
                    dag.push(n(Sym::Comp, base, base + 1)); // base+2: the twin
                    dag.push(n(w, 0, 0)); // base+3
                    dag.push(n(other, base + 3, 0)); // base+4
                    dag.push(n(Sym::Comp, base + 4, base + 1)); // base+5
                    dag.push(n(Sym::Comp, base + 2, base + 5)); // base+6
                    sides.push(base + 6);
                }
                dag.push(n(Sym::Comp, sides[0], sides[1]));
                let what = format!("{}", render(&dag, fam));
                let Some(p) = Prog::new(&dag, fam) else {
                    out.violation("twins:host", leg, what, "the reference cannot type the twin program".into());
                    continue;
                };
                let none = vec![None; dag.len()];
                let shared = wire_list(&p, &none, true);
                if shared.nodes.len() + 2 != dag.len() && shared.nodes.len() + 1 != dag.len() {
                    out.violation("twins:host", leg, what, format!("the reference quotient has {} nodes, the program {}: not an identity twin", shared.nodes.len(), dag.len()));
                    continue;
                }
                // pointer form: every DAG node emitted as it stands
                let pointer: Vec<WNode> = dag
                    .iter()
                    .map(|x| match x.sym {
                        Sym::Unit => WNode::Unit,
                        Sym::InjL => WNode::InjL(x.l as usize),
                        Sym::InjR => WNode::InjR(x.l as usize),
                        Sym::Comp => WNode::Comp(x.l as usize, x.r as usize),
                        Sym::Word(k, v) => WNode::Word(k, (0..(1usize << k)).rev().map(|i| v >> i & 1 == 1).collect()),
                        _ => unreachable!(),
                    })
                    .collect();
                let sb = bits_to_bytes(&ref_encode(&shared.nodes, &jets));
                let pb = bits_to_bytes(&ref_encode(&pointer, &jets));
                let acc = one(ctx, out, leg, Dec::Redeem, fam, &sb, &[], &format!(" [shared form of {what}]"), &jets, true);
                if !acc && ctx.is_full_run() {
                    out.violation("twins:shared-form-rejected", leg, what.clone(), format!("the canonical encoding {} is rejected", hex(&sb)));
                }
                one(ctx, out, leg, Dec::Redeem, fam, &pb, &[], &format!(" [both twins emitted: {what}]"), &jets, true);
            }
        }
    }
}

/// re-emit a wire list from its root with one deliberate canonicity violation
fn rewrite(nodes: &[WNode], unshare: Option<usize>, swap: Option<usize>) -> Vec<WNode> {
    fn kids(n: &WNode) -> Vec<usize> {
        match n {
            WNode::Comp(a, b) | WNode::Case(a, b) | WNode::Pair(a, b) | WNode::Disc(a, b) => vec![*a, *b],
            WNode::InjL(a) | WNode::InjR(a) | WNode::Take(a) | WNode::Drop(a) | WNode::Disc1(a) => vec![*a],
            _ => vec![],
        }
    }
    fn with_kids(n: &WNode, k: &[usize]) -> WNode {
        match n {
            WNode::Comp(..) => WNode::Comp(k[0], k[1]),
            WNode::Case(..) => WNode::Case(k[0], k[1]),
            WNode::Pair(..) => WNode::Pair(k[0], k[1]),
            WNode::Disc(..) => WNode::Disc(k[0], k[1]),
            WNode::InjL(_) => WNode::InjL(k[0]),
            WNode::InjR(_) => WNode::InjR(k[0]),
            WNode::Take(_) => WNode::Take(k[0]),
            WNode::Drop(_) => WNode::Drop(k[0]),
            WNode::Disc1(_) => WNode::Disc1(k[0]),
            other => other.clone(),
        }
    }
    fn go(nodes: &[WNode], i: usize, unshare: Option<usize>, swap: Option<usize>, memo: &mut Vec<Option<usize>>, out: &mut Vec<WNode>) -> usize {
        if Some(i) != unshare {
            if let Some(p) = memo[i] {
                return p;
            }
        }
        let ks = kids(&nodes[i]);
        let mut newk = vec![0; ks.len()];
        let order: Vec<usize> = if Some(i) == swap && ks.len() == 2 { vec![1, 0] } else { (0..ks.len()).collect() };
        for o in order {
            newk[o] = go(nodes, ks[o], unshare, swap, memo, out);
        }
        out.push(with_kids(&nodes[i], &newk));
        memo[i] = Some(out.len() - 1);
        out.len() - 1
    }
    let mut out = vec![];
    go(nodes, nodes.len() - 1, unshare, swap, &mut vec![None; nodes.len()], &mut out);
    out
}

fn leg_deviations(ctx: &Ctx, out: &mut Out) {
    let leg = "deviations";
    for fam in [Fam::Core, Fam::Elements] {
        let jets = JetCodes::new(fam);
        let nmax = ctx.tier.pick(4, 5);
        for n in 1..=nmax {
            let alpha = sigma_p(fam);
            let mut dags: Vec<Dag> = vec![];
            enum_dags(n, &alpha, 3, &mut || ctx.mine(), &mut |d| dags.push(d.to_vec()));
            for dag in &dags {
                let Some(p) = Prog::new(dag, fam) else { continue };
                if p.has(|s| s == Sym::Disc1) {
                    continue;
                }
                // fail nodes carry 64 bytes of entropy: bit flips there are uninformative, keep one representative
                let has_fail = p.has(|s| matches!(s, Sym::Fail(_)));
                let (assignments, _) = p.witness_assignments(4, ctx.tier.pick(4, 32));
                for wit in &assignments {
                    let Ok(r) = p.to_redeem(wit) else { continue };
                    let (pb, wb) = r.to_vec_with_witness();
                    let origin = format!(" of [{} {}]", p.render(), wit_str(wit));
                    // the canonical member itself must be accepted
                    if !one(ctx, out, leg, Dec::Redeem, fam, &pb, &wb, &format!(" canonical{origin}"), &jets, true) {
                        let label = format!("{} {}", p.render(), wit_str(wit));
                        out.violation("canon:own-encoding-rejected", leg, label, format!("{} / {} is rejected", hex(&pb), hex(&wb)));
                        continue;
                    }
                    // bit-level deviations
                    if !has_fail || n <= 2 {
                        for (mp, mw, what) in mutations(&pb, &wb) {
                            one(ctx, out, leg, Dec::Redeem, fam, &mp, &mw, &format!("{what}{origin}"), &jets, true);
                            if ctx.tier == Tier::Thorough && n <= 3 && !has_fail {
                                for (mp2, mw2, what2) in mutations(&mp, &mw) {
                                    one(ctx, out, "deviations2", Dec::Redeem, fam, &mp2, &mw2, &format!("{what}{what2}{origin}"), &jets, true);
                                }
                            }
                        }
                    }
                    // padding bits
                    let wire = wire_list(&p, wit, true);
                    let pbits = ref_encode(&wire.nodes, &jets);
                    for k in pbits.len()..pb.len() * 8 {
                        let mut m = pb.clone();
                        m[k / 8] |= 0x80 >> (k % 8);
                        one(ctx, out, leg, Dec::Redeem, fam, &m, &wb, &format!(" [prog padding bit {k} set]{origin}"), &jets, true);
                    }
                    // structural deviations through the reference encoder
                    let wn = wire.nodes.len();
                    let mut variants: Vec<(Vec<WNode>, String)> = vec![];
                    for k in 0..wn {
                        let shared = wire.nodes.iter().filter(|x| match x {
                            WNode::Comp(a, b) | WNode::Case(a, b) | WNode::Pair(a, b) | WNode::Disc(a, b) => *a == k || *b == k,
                            WNode::InjL(a) | WNode::InjR(a) | WNode::Take(a) | WNode::Drop(a) | WNode::Disc1(a) => *a == k,
                            _ => false,
                        }).count() + wire.nodes.iter().filter(|x| matches!(x, WNode::Comp(a, b) | WNode::Case(a, b) | WNode::Pair(a, b) | WNode::Disc(a, b) if *a == k && *b == k)).count();
                        if shared >= 2 {
                            variants.push((rewrite(&wire.nodes, Some(k), None), format!(" [unshare wire node {k}]")));
                        }
                        if matches!(wire.nodes[k], WNode::Comp(a, b) | WNode::Case(a, b) | WNode::Pair(a, b) | WNode::Disc(a, b) if a != b) {
                            variants.push((rewrite(&wire.nodes, None, Some(k)), format!(" [emit right child first at wire node {k}]")));
                        }
                    }
                    // unused node in front / before the root
                    for (pos, extra) in [(0usize, WNode::Unit), (0, WNode::Iden), (wn - 1, WNode::Unit), (0, WNode::Hidden([9; 32]))] {
                        let mut v: Vec<WNode> = vec![];
                        let shift = |i: usize| if i >= pos { i + 1 } else { i };
                        for (i, x) in wire.nodes.iter().enumerate() {
                            if i == pos {
                                v.push(extra.clone());
                            }
                            v.push(match x {
                                WNode::Comp(a, b) => WNode::Comp(shift(*a), shift(*b)),
                                WNode::Case(a, b) => WNode::Case(shift(*a), shift(*b)),
                                WNode::Pair(a, b) => WNode::Pair(shift(*a), shift(*b)),
                                WNode::Disc(a, b) => WNode::Disc(shift(*a), shift(*b)),
                                WNode::InjL(a) => WNode::InjL(shift(*a)),
                                WNode::InjR(a) => WNode::InjR(shift(*a)),
                                WNode::Take(a) => WNode::Take(shift(*a)),
                                WNode::Drop(a) => WNode::Drop(shift(*a)),
                                WNode::Disc1(a) => WNode::Disc1(shift(*a)),
                                o => o.clone(),
                            });
                        }
                        variants.push((v, format!(" [unused {extra:?} inserted at {pos}]")));
                    }
                    for (v, what) in variants {
                        if v == wire.nodes {
                            continue;
                        }
                        let bytes = bits_to_bytes(&ref_encode(&v, &jets));
                        // witness stream: same bits (for unshared witnesses the value is needed twice: append a copy)
                        one(ctx, out, "structural", Dec::Redeem, fam, &bytes, &wb, &format!("{what}{origin}"), &jets, true);
                        one(ctx, out, "structural", Dec::Commit, fam, &bytes, &[], &format!("{what}{origin}"), &jets, true);
                        let mut w2 = wb.clone();
                        w2.extend(wb.iter());
                        one(ctx, out, "structural", Dec::Redeem, fam, &bytes, &w2, &format!("{what} [witness doubled]{origin}"), &jets, true);
                    }
                }
            }
        }
    }
}

/// shortcut-keyed-on-magnitude inputs, hand-assembled with the reference encoder
fn leg_magnitude(ctx: &Ctx, out: &mut Out) {
    let leg = "magnitude";
    let fam = Fam::Core;
    let jets = JetCodes::new(fam);
    let mut cases: Vec<(Vec<u8>, Vec<u8>, String)> = vec![];
    let ks: &[usize] = if ctx.tier == Tier::Thorough { &[8, 16, 30, 31, 32, 33, 62, 63, 64, 65, 70, 128] } else { &[16, 31, 32, 33, 63, 64, 65, 70] };
    for &k in ks {
        for base in ["bit", "unit", "witness", "iden"] {
            for tail in ["comp-unit", "comp-iden-unit", "comp-injl-unit", "pair-root", "disconnect", "case"] {
                let mut v: Vec<WNode> = vec![match base {
                    "bit" => WNode::Word(0, vec![true]),
                    "unit" => WNode::Unit,
                    "witness" => WNode::Witness,
                    _ => WNode::Iden,
                }];
                for _ in 0..k {
                    let i = v.len() - 1;
                    v.push(WNode::Pair(i, i));
                }
                let chain = v.len() - 1;
                match tail {
                    "comp-unit" => {
                        v.push(WNode::Unit);
                        v.push(WNode::Comp(chain, chain + 1));
                    }
                    "comp-iden-unit" => {
                        v.push(WNode::Iden);
                        v.push(WNode::Comp(chain, chain + 1));
                        v.push(WNode::Unit);
                        v.push(WNode::Comp(chain + 2, chain + 3));
                    }
                    "comp-injl-unit" => {
                        v.push(WNode::Unit);
                        v.push(WNode::InjL(chain + 1));
                        v.push(WNode::Comp(chain + 2, chain + 1));
                        v.push(WNode::Comp(chain, chain + 3));
                    }
                    "pair-root" => {}
                    "disconnect" => {
                        v.push(WNode::Unit);
                        v.push(WNode::Disc(chain, chain + 1));
                        v.push(WNode::Comp(chain + 2, chain + 1));
                    }
                    _ => {
                        v.push(WNode::Unit);
                        v.push(WNode::Case(chain, chain + 1));
                        v.push(WNode::Pair(chain, chain));
                        v.push(WNode::Comp(chain + 3, chain + 2));
                    }
                }
                let bytes = bits_to_bytes(&ref_encode(&v, &jets));
                cases.push((bytes, vec![], format!(" [{k} pair-doublings of {base}, tail {tail}]")));
            }
        }
    }
    // word nodes with the length natural at / beyond the limit, short body
    for n in [30u64, 31, 32, 33, 34, 64] {
        let mut bits = ref_encode_natural(1);
        bits.extend([true, false]);
        bits.extend(ref_encode_natural(n));
        bits.extend([true; 40]);
        cases.push((bits_to_bytes(&bits), vec![], format!(" [word node with size natural {n}, 40 bits of body]")));
    }
    // length prefix at the natural limits
    for len in [(1u64 << 31) - 1, 1 << 31, (1 << 32) - 1, 1 << 32, 1 << 20, 10_001] {
        let mut bits = ref_encode_natural(len);
        for _ in 0..6 {
            bits.extend([false, true, false, false, true]);
        }
        cases.push((bits_to_bytes(&bits), vec![], format!(" [length prefix {len}, 6 unit nodes]")));
    }
    // back-reference naturals at the limits
    for d in [(1u64 << 31) - 1, 1 << 31, (1 << 32) - 1] {
        let mut bits = ref_encode_natural(2);
        bits.extend([false, true, false, false, true]);
        bits.extend([false, false, true, false, false]);
        bits.extend(ref_encode_natural(d));
        cases.push((bits_to_bytes(&bits), vec![], format!(" [back-reference {d}]")));
    }
    // a wide witness type with a short witness stream: comp (comp witness (2^k-bit consumer)) unit
    for k in ks.iter().filter(|k| **k <= 33) {
        // witness typed by being composed with the doubled *word* chain's consumer is not expressible;
        // instead: pair-doubled witness (each copy its own type var) composed with unit
        let mut v: Vec<WNode> = vec![WNode::Witness];
        for _ in 0..*k {
            let i = v.len() - 1;
            v.push(WNode::Pair(i, i));
        }
        let chain = v.len() - 1;
        v.push(WNode::Unit);
        v.push(WNode::Comp(chain, chain + 1));
        cases.push((bits_to_bytes(&ref_encode(&v, &jets)), vec![0xff; 4], format!(" [{k} doublings of witness, 4 witness bytes]")));
    }
    for (pb, wb, what) in &cases {
        if !ctx.mine() {
            continue;
        }
        for dec in [Dec::Redeem, Dec::Commit, Dec::Construct] {
            one(ctx, out, leg, dec, fam, pb, wb, what, &jets, true);
        }
    }
}
