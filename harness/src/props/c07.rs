//! C07 - static resource bounds cover every execution. Same executions as C05 (success and
//! failure paths), judged by the high-water marks of hook H1; plus nesting towers; plus
//! magnitude cases: the machine must refuse programs whose bounds exceed its limits.

use crate::engine::{alloc, guard, panic_class, Ctx, Out, PropDef, Tier};
use crate::props::c05::{drive, Mode};
use crate::reference::bits::*;
use crate::reference::codec::*;
use crate::space::dag::Fam;
use simplicity::jet::Core;
use simplicity::{BitIter, BitMachine, RedeemNode};

pub static DEF: PropDef = PropDef {
    id: "C07",
    run,
    rule: "states = distinct programs executed with the instrumented machine; transitions = executions whose high-water marks were compared with the static bounds; non-trivial = program allocates at least one frame beyond input/output, or is a magnitude case",
    assumptions: &[
        "cells used = maximum of next_frame_start, frames used = maximum of read.len()+write.len(), both recorded by hook H1 inside new_write_frame",
        "allowance = |A| + |B| + extra_cells cells and extra_frames + 2 frames, as BitMachine::for_program sizes its buffers",
        "the build has debug assertions and overflow checks on, so any out-of-bounds access inside the machine panics and is reported",
    ],
    shards: (32, 128),
    budget_ms: (60_000, 180_000),
};

fn run(ctx: &Ctx, out: &mut Out) {
    drive(ctx, out, Mode::Bounds);
    leg_limits(ctx, out);
}

/// programs whose bounds exceed the hard limits: decode (must not panic), then the machine must
/// refuse them without attempting the allocation
fn leg_limits(ctx: &Ctx, out: &mut Out) {
    let leg = "limits";
    let jets = JetCodes::new(Fam::Core);
    let ks: &[usize] = if ctx.tier == Tier::Thorough { &[10, 20, 24, 25, 26, 27, 28, 30, 31, 32, 33, 40, 63, 64, 65, 70] } else { &[20, 26, 27, 31, 32, 33, 64, 70] };
    for &k in ks {
        for tail in ["comp-unit", "comp-iden-unit", "comp-injl-unit", "disconnect"] {
            if !ctx.mine() {
                continue;
            }
            let mut v: Vec<WNode> = vec![WNode::Word(0, vec![true])];
            for _ in 0..k {
                let i = v.len() - 1;
                v.push(WNode::Pair(i, i));
            }
            let chain = v.len() - 1;
            match tail {
                "comp-unit" => {
                    v.push(WNode::Unit);
                    v.push(WNode::Comp(chain, chain + 1));
                }
                "comp-iden-unit" => {
                    v.push(WNode::Iden);
                    v.push(WNode::Comp(chain, chain + 1));
                    v.push(WNode::Unit);
                    v.push(WNode::Comp(chain + 2, chain + 3));
                }
                "comp-injl-unit" => {
                    v.push(WNode::Unit);
                    v.push(WNode::InjL(chain + 1));
                    v.push(WNode::Unit);
                    v.push(WNode::Comp(chain + 2, chain + 3));
                    v.push(WNode::Comp(chain, chain + 4));
                }
                _ => {
                    // comp (disconnect (pair unit (drop chain)) unit') unit'' : the doubled type is the
                    // source of the disconnected branch
                    v.push(WNode::Drop(chain));
                    v.push(WNode::Unit);
                    v.push(WNode::Pair(chain + 1, chain + 2));
                    v.push(WNode::Unit);
                    v.push(WNode::Disc(chain + 3, chain + 4));
                    v.push(WNode::Unit);
                    v.push(WNode::Comp(chain + 5, chain + 6));
                }
            }
            let bytes = bits_to_bytes(&ref_encode(&v, &jets));
            let label = || format!("{k} pair-doublings of a bit, tail {tail}: prog={}", hex(&bytes));
            if !ctx.begin(leg, &label) {
                continue;
            }
            out.evaluations += 1;
            out.states += 1;
            out.nontrivial += 1;
            out.transitions += 1;
            let base = alloc::mark();
            let r = guard(|| {
                let p = RedeemNode::decode::<_, _, Core>(BitIter::from(bytes.as_slice()), BitIter::from(&[][..]));
                match p {
                    Err(e) => Ok(format!("rejected at decode: {}", e.to_string().chars().take(160).collect::<String>())),
                    Ok(p) => {
                        let b = p.bounds();
                        let io = p.arrow().source.bit_width().saturating_add(p.arrow().target.bit_width());
                        let need = io.saturating_add(b.extra_cells);
                        match BitMachine::for_program(&p) {
                            Err(e) => Ok(format!("refused by the machine: {e} (extra_cells {})", b.extra_cells)),
                            Ok(mut mac) => {
                                // accepted: it must then be runnable within its buffer
                                if need > (1 << 33) {
                                    return Err(("limits:accepted-huge".to_string(), format!("machine accepts a program needing {need} cells")));
                                }
                                let r = mac.exec(&p, &simplicity::jet::CoreEnv::new());
                                let (cells, frames, _, _) = mac.verif_high_water();
                                if cells > need || frames > b.extra_frames + 2 {
                                    return Err(("bounds:cells".to_string(), format!("{cells} cells / {frames} frames used; allowance {need} / {}", b.extra_frames + 2)));
                                }
                                Ok(format!("ran: {:?}; {cells} of {need} cells", r.map(|_| ())))
                            }
                        }
                    }
                }
            });
            let peak = alloc::peak_since(base);
            match r {
                Ok(Ok(what)) => {
                    if peak > (1usize << 31) {
                        out.violation("limits:allocation", leg, label(), format!("{what}; peak allocation {peak} bytes"));
                    } else {
                        out.outcome(what.split(':').next().unwrap_or("?"));
                        out.sample(leg, || (label(), format!("{what}; peak allocation {peak} bytes")));
                    }
                }
                Ok(Err((c, d))) => out.violation(&c, leg, label(), d),
                Err(p) => out.violation(&panic_class(&p), leg, label(), p),
            }
            ctx.end();
        }
    }
}
