#!/usr/bin/env python3
"""Regenerates /verif/MANIFEST.json from the table below and validates it against the schema."""
import json, os, subprocess, sys
here = os.path.dirname(os.path.dirname(os.path.abspath(__file__)))

HOOK_COMMITS = subprocess.run(["git", "-C", "/repo", "log", "--format=%H", "--grep=^verif-hooks"],
                              capture_output=True, text=True).stdout.split()

# id -> (technique, level text, level note, design ref)
CHECKS = {
 "C01": ("exhaustive enumeration of all well-typed programs up to a node bound x every witness assignment, encode/decode/re-encode on the real nodes, plus an independent bit-level codec decoding the bytes to a structurally computed maximal-sharing quotient",
         "Every 1->1 program among all canonical DAGs with <=5 (thorough 6) nodes over a 20-symbol alphabet (witness, disconnect with/without branch, assertions with hidden CMRs, fail, words, a jet), Core and Elements, commitment form and redemption form with every witness assignment of <=4-bit types (corner values above); roots, per-node kinds/arrows/roots, witness bits per node, byte-identical re-encoding; the reference codec must parse the bytes to exactly the expected node list. Plus: every jet of both families as `comp (comp witness j) unit`; one witness of every type with <=3/4 constructors and of every type whose padding flag is decided by one child (all equal-width sums of <=6/7 constructors with exactly one padded arm), every value, followed by a second witness; one witness of every bit width 1..600/1100.",
         "Trusts the reference codec and the structural sharing quotient; jet code words are atoms. Programs above the node bound and wide witnesses beyond corner values are not explored.", "5/C01"),
 "C02": ("exhaustive enumeration of all byte strings up to a length bound as program and as witness for all three decoders and both jet families, plus every single (thorough: double) bit-level deviation and every single structural deviation (via an independent encoder) of every canonical encoding of the program population, plus magnitude macro-cases",
         "All byte strings of <=2/3 bytes as program (Redeem, Commit, Construct decoders; Core, Elements) and as witness for six host programs with witnesses of type 2, 2^8, 2^16, 2^512, 1+2^8 and (2, 2^8); for every program of <=4/5 nodes and its witness assignments: every bit flip, prefix, 4 one-byte extensions, every padding bit, unsharing of every shared node, right-child-first emission at every binary node, four kinds of unused/hidden node insertion; 8-12 pair-doubling depths x 4 bases x 6 tails, word/length/back-reference naturals at the 31/32-bit limits. Each call under catch_unwind, a watchdog and an allocation meter; accepted => must re-encode to the input. Plus: one typed witness node for every type with <=3/4 constructors and the padding-flag family x every witness string of <=2 bytes, where the accepted set must equal the reference's compact encodings; identity twins (two nodes with equal identity hash but different interior types) in shared and in pointer form.",
         "Trusts the reference encoder used to assemble non-canonical inputs. Byte strings longer than 3 bytes that are not within 2 deviations of a population member are not explored.", "5/C02"),
 "C03": ("exhaustive differential enumeration: every (program bytes, witness bytes) pair in the space is run through the vendored C pipeline stage by stage and through RedeemNode::decode, verdicts and roots compared",
         "All byte strings of <=2/3 bytes at every program/witness split; the encodings of every Elements program with <=5 nodes with all witness assignments (<=4-bit types) and every single deviation of each (thorough: double deviations for <=3 nodes); comp (comp witness j) unit for all 471 Elements jets. Accept/reject must agree except C's FailCode; on joint acceptance CMR, AMR, IHR and the cost bound must be identical. Plus one witness of every bit width 1..1100/2100 (pinned by a constant of the same type), 4 values each.",
         "The C library is the reference. C results ExecMemory/ExecBudget/Malloc are treated as outside the statement.", "5/C03"),
 "C04": ("exhaustive enumeration of all canonical combinator DAGs up to a node bound x every topological construction order, each run through the real ConstructNode API in a fresh context and judged by a textbook unifier",
         "All DAGs with <=5 (thorough 6; 7 over a reduced 8-symbol alphabet) nodes over an 18-symbol alphabet (well-typed or not, every sharing pattern), as program and as expression, in every linear extension of the dependency order; every Core and Elements jet as a typed leaf in all DAGs of <=3 nodes; pair-doubling macro-cases (up to 100 doublings) for termination, memory and displayability of errors. Verdict, every node's arrow and order-independence are compared on every case.",
         "Trusts the 60-line Robinson unifier and the typing rules as transcribed; DAGs above the node bound are only covered by the doubling macro-cases.", "5/C04"),
 "C05": ("exhaustive type-directed enumeration of all well-typed terms up to a size bound over all types up to a constructor bound, each built on the real nodes with pinned arrows and executed on the real Bit Machine with every input value in 17 placement contexts, judged by a big-step evaluator",
         "All terms with <=4/5 nodes for every arrow A->B over the 11/51 types with <=2/3 constructors (iden, unit, injl/r, take, drop, comp through every mid type, case, pair, assertl/r, fail, witness of every value, words, verify), every input value; terms of <=3/4 nodes additionally at read offsets 1..7, write offsets 1..7, inside reused dirty frames and with output copied from a dirty frame; 153 arithmetic/logic/comparison jets against a hand-written table (exhaustive up to 16/20 input bits, 14 corner values per operand above) at 4 placements; disconnect with 3 left shapes x all small right branches (CMR of the branch re-hashed from scratch). Verdict kind (assertion / fail node / jet) and output value compared on every execution. Plus comp/pair/case over 7 gadgets with crossed cell/frame profiles, and every term of <=4/5 nodes from each padded source type of a closed 12-type list (every input).",
         "Trusts the big-step evaluator and the jet table (the table is itself compared with the C jets here). Hash, secp and introspection jet semantics are not covered (C06 compares those with C).", "5/C05"),
 "C06": ("exhaustive differential enumeration: every (program, witness assignment, environment) triple of the population is executed by the Rust Bit Machine and by libsimplicity's evaluator on the re-decoded serialisation, sharing one marshalled environment",
         "Every Elements program with <=4/5 nodes (alphabet with witness, assertions, disconnect, case, words, verify, lock_time, current_index, eq_32) x all witness assignments x 6/all environments; comp (comp witness j) unit for all 471 jets x corner witnesses x every 4th/all of ~80 one-deviation environments (verdict classes ok/assertion/jet failure); and comp witness j as a bare expression for all 471 jets: the output bits of both evaluators must be equal. Plus C05's disconnect terms and crossed-profile terms as `comp witness t` expressions pinned to their principal types: output bits of both evaluators compared (1286 programs at quick). Environments include the positional family (each per-input/per-output deviation at each of 3 positions).",
         "The C evaluator is the reference. Programs with fail nodes are outside (C refuses them).", "5/C06"),
 "C07": ("the executions of C05 (all terms x inputs x placements, success and failing paths) re-run on a machine instrumented with high-water marks, plus nesting towers and magnitude macro-cases",
         "Same term space as C05 plus comp/disconnect towers of depth <=4/6 around every small term; cells used <= |A|+|B|+extra_cells and frames used <= extra_frames+2 on every execution; 8/16 pair-doubling depths x 4 tails: programs whose bounds exceed the hard limits must be refused by BitMachine::for_program without the allocation being attempted (allocation meter), accepted ones must run inside their buffer. The crossed-profile and padded-source legs of C05 are included.",
         "Relies on hook H1 (two counters in new_write_frame) and on debug assertions / overflow checks being enabled in the harness build.", "5/C07"),
 "C08": ("exhaustive enumeration of (program, witness assignment) pairs whose run succeeds, each pruned on the real library and judged by an oracle chain ending in libsimplicity's evaluator with all anti-DoS checks",
         "Every Core and Elements program with <=4/5 nodes x witness assignments, plus selector gadgets (a sum-typed witness feeding a case over 9 type pairs x branch menus, every witness value; the same case node under two parents with every pair of witness values; nested selectors): prune succeeds, CMR equal, same output, every pruned witness is of its node's type, re-encodes and re-decodes, pruning again is the identity, and (Elements) C decode + evalTCOExpression(CHECK_ALL) == NoError.",
         "C's anti-DoS verdict is the reference for 'no unexecuted node/branch remains'. One base environment.", "5/C08"),
 "C09": ("explicit-state breadth-first search over the conversion graph of node kinds (state = history replayed on fresh real objects, canonical key = representation + hidden set + branch attachment) with the CMR invariant checked in every state; exhaustive re-hashing of every node of every constructible DAG from tag strings; exhaustive hiding of every node; population-wide injectivity",
         "All constructible DAGs with <=5 nodes (Core: 23-symbol alphabet; Elements: 18): every node's CMR equals SHA-256 compression over IVs recomputed from the tag strings, before and after inference, and the root is unchanged by hiding any node (thorough: any pair). For every program with <=4/5 nodes a BFS of depth 4/5 over 14 transitions (finalize_types, finalize_unpruned, CommitNode::finalize, unfinalize, unfinalize_types, to_construct_node, Named round trip, encode/decode, change witness, attach/detach branches, hide case children). Injectivity over all constructible DAGs with <=4/5 nodes. Policy compilation as a conversion path: every policy with <=3/4 nodes over 11 leaves: Policy::cmr, commit() and every satisfied program (8 data subsets) against the compiled program's tree re-hashed from scratch.",
         "Trusts the from-scratch SHA-256 and the published CMR formulas; jet CMRs are atoms here. No cryptographic claim beyond the enumerated population.", "5/C09"),
 "C10": ("exhaustive enumeration of (type, value, production history) triples and prune targets, judged by reference type/value trees",
         "Every type with <=3/4 constructors plus word/option/buffer types, every value (corner values above 4096), 17 production histories including sub-value extraction at every bit offset from dirty buffers; offsets 1..9 and 16, and payloads cut from a parent and re-wrapped by Value::left/right (26 histories in all); the padding-flag type family, every prune target with <=2/3 constructors and every two-step chain. Complete within those bounds.",
         "Trusts the reference enum trees (width, padding, compact/padded bits by the Tech Report definitions). Wide types only on corner values.", "5/C10"),
 "C11": ("exhaustive pairwise (and triple-wise) comparison of all (value, history) productions per type against reference denotations",
         "All ordered pairs of productions of every type with <=2/3 constructors (plus small words and unequal sums), across 17 histories, for ==, cmp, partial_cmp, hash and Word; all triples for transitivity on the smaller types; cross-type pairs on constructor representatives. Sibling sub-values cut from ONE parent ((a,b) and (a,(b,a)) built by constructor, compact and padded decoding) compared with each other.",
         "Hash compared with SipHasher default keys; types beyond the bound only on corner values.", "5/C11"),
 "C12": ("exhaustive enumeration of (witness node type, position, candidate value, route) cases through the public finalisation/decoding routes, each accepted program re-decoded and executed",
         "Witness node types: all types with <=2/3 constructors plus 2^8, 2^32, 1+2^8 (forced by principal typing through a consumer that destructs the type); witness on an executed and on a later-pruned branch; candidates: every value (corner values when wide) of every one of those types; routes finalize_unpruned, finalize_pruned, human-readable witness map (both), RedeemNode::decode. Host types include the padding-flag family; every host has a follower witness so that a miscounted witness cannot hide in the end padding.",
         "Accepted programs are judged by is_of_type on every witness, a re-decode of their own serialisation and an instrumented execution.", "5/C12"),
 "C13": ("explicit-state exploration of the real BitIter (state = full internal state) over every 2/3-byte stream, plus exhaustive enumeration of writer op sequences, naturals, bit strings and windows against a Vec<bool> model",
         "Every reachable reader state over every byte string of the bound length is visited and an invariant plus model agreement is evaluated on every transition; all writer histories to depth 3/4, all naturals to 2^16/2^22 and around every power of two, all windows over <=3-byte slices. Exhaustive within those bounds, so any cursor/offset/refill bug that manifests on a stream of <=3 bytes is found.",
         "Trusts the 80-line Vec<bool> reference model and the recursive definition of the natural code; streams longer than 3 bytes are not explored.", "5/C13"),
 "C14": ("complete enumeration of the finite tables: every jet of the three families (codes, prefix-freeness, names, type names), every Elements jet against the C tables through the real C decoder and type inference, every Core jet against its Elements namesake, every extern declaration against the clang-dumped C prototype",
         "All 368 + 471 + 428 jets and all ~590 extern items of simplicity-sys (497 functions). Exhaustive over these finite sets.",
         "Trusts clang's AST for the C side and the regex extraction of the Rust extern blocks (an audit that finds fewer than 400 items fails). Return types and statics are compared but only reported as notes.", "5/C14"),
 "C15": ("exhaustive enumeration of (environment, field jet, index) triples over a menu-product environment space, each jet executed on the real Bit Machine in an environment built by the public ElementsEnv::new and compared with the value computed from the Rust-side transaction",
         "~80 one-deviation environments (thorough: ~2500 two-deviation ones) over inputs 1-3 (pegin, new issuance / reissuance x explicit/confidential/null amounts x proofs, annex absent/empty/1/300 bytes, sequences, script_sig), outputs 0-3 (explicit/confidential asset, value, nonce; empty/1-byte/OP_RETURN/300-byte scripts; proofs; fees in two assets), lock times, versions, 0/1/2/128 merkle steps, leaf-version parity; x 58 jets (all 16 current_* mirrors) x every index in [0, n+1] plus 2^31 and 2^32-1; sighash_all() == sig_all_hash. Plus ~90 positional environments: 3 pairwise distinct inputs and outputs, each deviation at each position, two values of the current index; range/surjection proofs are distinct byte strings per role and position.",
         "Expected values are computed from the elements crate's structures and the harness's own SHA-256. The 40 aggregate-hash jets are not given an independent expectation here (C06 compares their outputs with the C evaluator).", "5/C15"),
 "C16": ("exhaustive enumeration of all policy trees up to a node bound x every subset of available secrets x lock-time environments x every reordering of commutative children, judged by Boolean/threshold semantics with leaf truth obtained by running the leaf's own compiled fragment",
         "All policies with <=3/5 nodes over 10 leaves (2 keys, a hash, after 41/42/43, older 1/2, trivial, unsatisfiable) and and/or/thresh(k, 2-3 children, 0<=k<=n): Policy::cmr == commit().cmr(); for each of 8 availability subsets x 5/8 environments (lock time and sequence below/at/above the thresholds, final, time-typed, disabled): satisfy succeeds <=> the policy is true, the returned program has the policy's CMR and runs. Canonical sorting: all policies with <=5 nodes, every permutation of commutative children at every depth, idempotence. Plus all policies with 6..7/8 nodes over three ordered leaves for sorting. An unsatisfiable leaf with non-zero entropy is among the leaves.",
         "Signatures are real BIP-340 signatures from fixed keys. Larger policies are not explored.", "5/C16"),
 "C17": ("exhaustive enumeration of every committed program of the population and of every text rendering of it (each node named or inlined, ascriptions on/off, hidden CMRs as literal or as expression), each parsed, re-rendered and re-parsed on the real parser; exhaustive token strings for totality",
         "Every commitment-time program with <=4/5 nodes (witness, assertions with hidden CMRs, disconnect holes, fail, words, jet): from_program -> string_serialize -> parse must give the same CMR and bit encoding; every one of the 2^(n-1) inline/named renderings x ascriptions x two hidden-CMR notations: parse, compare with the reference CMR and the program's own encoding, re-render, re-parse, compare again (CMR, encoding, set of node arrows); all strings of <=3/4 tokens over a 33-token alphabet with and without a `main :=` prefix, and all 2-byte raw texts, for termination without panic. Every parse runs twice in-process as a hash-order audit. Plus `comp (comp witness j) unit` for every Core jet (every type abbreviation the printer knows).",
         "Programs above the node bound and texts with more than one root are not explored.", "5/C17"),
 "C18": ("exhaustive enumeration of all pointer-DAG shapes up to a node bound x sharing policies (no sharing, pointer sharing, every congruence as a class-sharing tracker), iterators stepped against a recursive reference; real Commit/Redeem DAGs with the real MaxSharing",
         "All canonical DAG shapes with <=6/7 nodes and out-degree <=2 through a harness type implementing the public DagLike, under NoSharing, InternalSharing and every congruence partition (<=5/6 nodes) as an abstract identity-hash sharing; post-order, right-to-left, pre-order, verbose pre-order (counters, depth, parent, depth limit) and is_shared_as compared item by item. Real CommitNode/RedeemNode DAGs of <=4/5 nodes with MaxSharing keyed on the actual identity hash. Real ConstructNode DAGs of <=4/5 nodes (with one- and two-child disconnect) through `&` and `Arc` handles, post/rtl/pre order under both sharing modes, against the enumerated DAG itself.",
         "Trusts the 25-line recursive reference post-order. Larger shapes are not explored.", "5/C18"),
 "C20": ("stateless model checking of real multi-threaded executions: a controlled token-passing scheduler over real OS threads explores every schedule with at most 2 (thorough 3) preemptions of every pair (and drop-centred triple) of library workloads, via scheduling points compiled into the library (hook H2); complemented by a happens-before race detector (helgrind) over unmanaged threads running every Elements jet, and by a SAMPLED cold-start pass (fresh process per trial); neither complement is counted as exhaustive",
         "7 workloads (decode of shared bytes; construct + finalize incl. an occurs-check failure in an own context; execution of a shared Arc<RedeemNode> with C jets on an own machine; prune of the shared program; clone/drop of the shared program; drop of the owner's reference so that the last reference dies in any thread; compare/prune/destructure a shared Value): all 28 unordered pairs at <=2/3 preemptions and 7 triples at <=1/2; every complete schedule's per-thread result fingerprints must equal the sequential ones, no panic, no deadlock/livelock (spinning is visible), the shared program must be freed; every tenth schedule is replayed and must reproduce the same trace. Complement 1: two unmanaged threads run every Elements jet on its corner inputs under helgrind; any unordered conflicting access with a libsimplicity C frame is a violation (verdict independent of timing). Complement 2 (sampled, 150/2400 trials): a fresh process, 8 threads behind a spin barrier before each first use of lazily built tables, three first-use orders, results compared with a single-threaded fresh process.",
         "Preemptions happen only at the H2 points (context-lock, name and precomputed-type points thinned to every 8th per thread); interleavings inside C jets and inside code without scheduling points are not explored by the scheduler (only by the two complements, the second of which samples); weak-memory behaviour of std::sync::Arc is not explored; at most 3 managed threads.", "5/C20"),
 "C19": ("exhaustive enumeration of (witness stack shape, cost) pairs around every compact-size boundary, judged by brute-force search for the shortest sufficient annex",
         "All stacks with item counts and last-item sizes straddling 252/253 and 65535/65536, all costs whose deficit is within +-3/6 of each region edge and every deficit 0..600/70000 with +-1 milliweight rounding variants. Complete over that grid.",
         "Trusts the compact-size definition re-implemented in the oracle; costs between the grid points are not enumerated.", "5/C19"),
}

 
ALL = ["C%02d" % i for i in range(1, 21)]

def main():
    checks = []
    for pid in ALL:
        if pid not in CHECKS:
            continue
        tech, text, note, ref = CHECKS[pid]
        checks.append({
            "property_id": pid,
            "quick_cmd": f"./check {pid} quick",
            "thorough_cmd": f"./check {pid} thorough",
            "evidence_file": f"/verif/evidence/{pid}.json",
            "replay_cmd_template": f"./check {pid} --replay {{path}}",
            "engine": "simpmc",
            "level_claimed": {"category": "model_checking", "text": text, "design_ref": f"DESIGN.md section {ref}"},
            "level_note": note,
            "technique": tech,
        })
    na = [{"property_id": p, "reason": dict().get(p, "check not built yet in this revision of /verif (planned, see DESIGN.md section 5); not claimed until it exists")}
          for p in ALL if p not in CHECKS]
    m = {
        "version": 1,
        "setup_cmd": "cd /verif/harness && CARGO_NET_OFFLINE=true cargo build --release --offline",
        "hooks": {
            "guard": "cargo feature `verif-hooks` of simplicity-lang",
            "enable": "the harness crate depends on /repo with features = [elements, human_encoding, test-utils, verif-hooks]; ./check rebuilds it against /repo's working tree on every run",
            "baseline_off_cmd": "cd /repo && cargo test --workspace --no-fail-fast --offline",
            "source_commits": HOOK_COMMITS,
            "add_only": True,
        },
        "engines": [{
            "name": "simpmc", "path": "/verif/harness",
            "serves_properties": [c["property_id"] for c in checks],
            "kind_free_text": "Rust harness: bounded exhaustive enumeration / explicit-state exploration of the real library, process-isolated workers with watchdog and allocation meter, independent reference oracles",
        }],
        "checks": checks,
        "not_applicable": na,
        "notes": "Exit 0 = held on everything explored (KNOWN-FINDING lines for entries of known_findings.json), 1 = unlisted violation (VIOLATION line + replay file), 2 = machinery failure (no verdict).",
    }
    if not na:
        del m["not_applicable"]
    path = os.path.join(here, "MANIFEST.json")
    json.dump(m, open(path, "w"), indent=1)
    try:
        import jsonschema
        jsonschema.validate(m, json.load(open("/root/.vp/MANIFEST.schema.json")))
        print("MANIFEST.json valid;", len(checks), "checks,", len(na), "not claimed")
    except ImportError:
        print("jsonschema not available; not validated")

if __name__ == "__main__":
    main()
