#!/usr/bin/env python3
"""Prints the measured bounds table (DESIGN.md 10.2) from the evidence files the checks wrote:
evidence/<id>.json (last run, normally quick) and evidence/<id>.thorough.json (last thorough run)."""
import json, os
here = os.path.dirname(os.path.dirname(os.path.abspath(__file__)))
def cell(path, want):
    if not os.path.exists(path):
        return "-"
    e = json.load(open(path))
    if e["tier"] != want:
        return "-"
    c = e["coverage"]
    return f"{c.get('states',0):.3g} states, {c.get('transitions',0):.3g} transitions, {c['evaluations']:.3g} cases, {e['wall_s']:.0f} s" + ("" if c.get("exhaustive") else " (caps hit, see evidence)")
print("| id | quick (measured) | thorough (measured) |\n|---|---|---|")
for i in range(1, 21):
    pid = f"C{i:02d}"
    print(f"| {pid} | {cell(f'{here}/evidence/{pid}.json','quick')} | {cell(f'{here}/evidence/{pid}.thorough.json','thorough')} |")
