#!/bin/bash
# tools/seed_matrix.sh [seed-name...]
# Re-runs the registered quick checks listed in each seeded/<name>/meta.json ("checks") against
# /repo with that change applied, and records the verdicts in meta.json ("matrix") and in
# seeded/MATRIX.md. /repo must be clean; it is restored after every seed.
set -u
cd /verif
[ -z "$(git -C /repo status --short)" ] || { echo "/repo is not clean"; exit 2; }
seeds="$@"; [ -n "$seeds" ] || seeds=$(ls seeded | grep -v MATRIX)
# the checks rewrite evidence/<id>.json on every run: keep the evidence of the unchanged tree aside and put it back
evbak=$(mktemp -d /tmp/evidence-backup.XXXXXX); cp -a evidence/. "$evbak"/
for name in $seeds; do
  d=seeded/$name
  [ -f $d/patch.diff ] || continue
  ids=$(python3 -c "import json;print(' '.join(json.load(open('$d/meta.json')).get('checks',[])))")
  git -C /repo apply /verif/$d/patch.diff || { echo "$name: patch does not apply"; continue; }
  res=""
  for id in $ids; do
    o=$(./check $id quick 2>&1); rc=$?
    cls=$(echo "$o" | grep -A1 "^VIOLATION" | grep -o "class=[^ ]*" | sort -u | head -4 | tr '\n' ' ')
    echo "$name $id exit=$rc $cls"
    res="$res$id:$rc:$cls|"
  done
  git -C /repo checkout -- .
  rm -rf /verif/replays/* 2>/dev/null
  python3 - "$d/meta.json" "$res" <<'PY'
import json,sys
p,res=sys.argv[1:3]
m=json.load(open(p))
m['matrix']={}
for item in res.split('|'):
    if not item: continue
    i,rc,cls=item.split(':',2)
    m['matrix'][i]={'exit':int(rc),'verdict':'caught' if rc=='1' else ('missed' if rc=='0' else 'engine-error'),'classes':cls.split()}
json.dump(m,open(p,'w'),indent=1)
PY
done
cp -a "$evbak"/. evidence/ && rm -rf "$evbak"
python3 - <<'PY'
import json,os
rows=[]
for n in sorted(os.listdir('/verif/seeded')):
    p=f'/verif/seeded/{n}/meta.json'
    if not os.path.exists(p): continue
    m=json.load(open(p))
    mx=m.get('matrix',{})
    rows.append((n,m.get('property','?'),m.get('changed','?'),', '.join(f"{k}: {v['verdict']}" for k,v in mx.items()),m.get('first_run','')))
with open('/verif/seeded/MATRIX.md','w') as f:
    f.write('| seeded change | property | what was changed | quick checks on the changed tree (current harness) | first run, before strengthening |\n|---|---|---|---|---|\n')
    for r in rows: f.write('| '+' | '.join(r)+' |\n')
print(open('/verif/seeded/MATRIX.md').read())
PY
