#!/bin/bash
# tools/try_seed.sh <worktree> <seed-name> <check ids...>
# 1. confirms the seeded change in its own worktree (suite passes with it, demo fails with it, demo passes without)
# 2. applies it to /repo, runs the given quick checks, reverts /repo
# 3. stores patch, demo and meta.json under /verif/seeded/<seed-name>/
set -u
wt="$1"; name="$2"; shift 2
out=/verif/seeded/$name
mkdir -p "$out"
cd "$wt" || exit 2
git diff -- . ':!tests' ':!SEEDED.md' ':!Cargo.lock' > "$out/patch.diff"
[ -s "$out/patch.diff" ] || { echo "empty patch"; exit 2; }
cp tests/seeded_demo.rs "$out/seeded_demo.rs" 2>/dev/null
cp SEEDED.md "$out/SEEDED.md" 2>/dev/null
export CARGO_NET_OFFLINE=true
echo "== with change: existing suite"
mv tests /tmp/seed-tests-$$ 2>/dev/null
suite=$(cargo test --workspace --no-fail-fast --offline 2>&1 | grep -E "^test result" | awk '{p+=$4; f+=$6} END {print p" passed "f" failed"}')
mv /tmp/seed-tests-$$ tests 2>/dev/null
echo "   $suite"
echo "== with change: demo"
cargo test --offline --features human_encoding,test-utils --test seeded_demo >/tmp/seed-demo-with-$$.log 2>&1; with=$?
echo "   exit $with"
git apply -R "$out/patch.diff" || { echo "cannot revert patch"; exit 2; }   # (git stash is shared between worktrees: not used)
echo "== without change: demo"
cargo test --offline --features human_encoding,test-utils --test seeded_demo >/tmp/seed-demo-without-$$.log 2>&1; without=$?
echo "   exit $without"
git apply "$out/patch.diff"
echo "== checks on /repo with the change applied"
evbak=$(mktemp -d /tmp/evidence-backup.XXXXXX); cp -a /verif/evidence/. "$evbak"/
cd /repo && git apply "$out/patch.diff" || { echo "patch does not apply to /repo"; exit 2; }
results=""
for id in "$@"; do
  o=$(cd /verif && ./check $id quick 2>&1); rc=$?
  nv=$(echo "$o" | grep -c "^VIOLATION")
  first=$(echo "$o" | grep -A1 "^VIOLATION" | grep "class=" | head -3 | sed 's/^ *//' | cut -c1-200 | tr '\n' ';')
  echo "   $id exit=$rc violations=$nv $first"
  results="$results{\"check\":\"$id\",\"exit\":$rc,\"violation_lines\":$nv,\"first\":$(python3 -c "import json,sys; print(json.dumps(sys.argv[1]))" "$first")},"
done
git -C /repo checkout -- . ; git -C /repo status --short | head -3
cp -a "$evbak"/. /verif/evidence/ && rm -rf "$evbak"
rm -rf /verif/replays/* 2>/dev/null
python3 - "$out" "$name" "$suite" "$with" "$without" "[${results%,}]" <<'PY'
import json,sys
out,name,suite,w,wo,res=sys.argv[1:7]
meta={"name":name,"suite_with_change":suite,"demo_exit_with_change":int(w),"demo_exit_without_change":int(wo),"quick_checks_with_change":json.loads(res)}
try:
    old=json.load(open(out+'/meta.json')); old.update(meta); meta=old
except Exception: pass
json.dump(meta,open(out+'/meta.json','w'),indent=1)
print(json.dumps(meta)[:600])
PY
rm -f /tmp/seed-demo-with-$$.log /tmp/seed-demo-without-$$.log
