#!/usr/bin/env python3
"""C14 helper: compare every `extern "C"` declaration in simplicity-sys/src/**/*.rs with the C
prototype / variable of the symbol it binds (clang -ast-dump=json over the vendored sources with
the crate's own defines). Prints one JSON document: {"items": [...], "mismatches": [...]}.

Comparison is by arity and ABI class per parameter (and return value): bool, 8/16/32/64-bit
integer (enums count as 32-bit integers), data pointer, function pointer, struct by value, void.
Pointer constness and pointee types are not compared (`*const c_void` bound to `const txEnv*` is
not a mismatch)."""
import json, os, re, subprocess, sys, glob

repo = sys.argv[1] if len(sys.argv) > 1 else "/repo"
sysdir = os.path.join(repo, "simplicity-sys")
dep = os.path.join(sysdir, "depend")

# ------------------------------------------------------------------ Rust side
rs_files = sorted(glob.glob(os.path.join(sysdir, "src", "**", "*.rs"), recursive=True))
src = {f: open(f).read() for f in rs_files}
alltext = "\n".join(src.values())

aliases = {}
for m in re.finditer(r"pub type (\w+)\s*=\s*([^;]+);", alltext, re.S):
    aliases[m.group(1)] = " ".join(m.group(2).split())
enums = set(re.findall(r"pub enum (\w+)", alltext))
structs = set(re.findall(r"pub struct (\w+)", alltext)) | set(re.findall(r"pub union (\w+)", alltext))

def strip_comments(t):
    t = re.sub(r"//[^\n]*", "", t)
    return re.sub(r"/\*.*?\*/", "", t, flags=re.S)

def split_top(s):
    out, depth, cur = [], 0, ""
    for ch in s:
        if ch in "(<[":
            depth += 1
        elif ch in ")>]":
            depth -= 1
        if ch == "," and depth == 0:
            out.append(cur); cur = ""
        else:
            cur += ch
    if cur.strip():
        out.append(cur)
    return [x.strip() for x in out]

def rust_class(t, seen=0):
    t = " ".join(t.split())
    if seen > 10:
        return "unknown:" + t
    if t.startswith("*const") or t.startswith("*mut") or t.startswith("&"):
        return "ptr"
    if t.startswith("unsafe extern") or t.startswith("extern") or t.startswith("fn(") or t.startswith("Option<unsafe extern") or t.startswith("Option<extern"):
        return "fnptr"
    base = t.split("::")[-1]
    prim = {"bool": "bool", "u8": "i8", "i8": "i8", "u16": "i16", "i16": "i16", "u32": "i32", "i32": "i32",
            "u64": "i64", "i64": "i64", "usize": "i64", "isize": "i64", "()": "void", "c_void": "void",
            "c_int": "i32", "c_uint": "i32", "c_uchar": "i8", "c_char": "i8", "c_long": "i64", "c_ulong": "i64"}
    if base in aliases and base not in ("c_void",):
        return rust_class(aliases[base], seen + 1)
    if base in prim:
        return prim[base]
    if base in enums:
        return "i32"
    if base in structs:
        return "struct"
    m = re.match(r"\[(.+);\s*(\d+)\]$", t)
    if m:
        return "array:%s:%s" % (rust_class(m.group(1)), m.group(2))
    return "unknown:" + t

items = []
for f, text in src.items():
    t = strip_comments(text)
    for blk in re.finditer(r'extern\s+"C"\s*\{', t):
        # find matching brace
        i, depth = blk.end(), 1
        while depth and i < len(t):
            depth += {"{": 1, "}": -1}.get(t[i], 0)
            i += 1
        body = t[blk.end():i - 1]
        for m in re.finditer(r'((?:#\[[^\]]*\]\s*)*)pub(?:\([^)]*\))?\s+fn\s+(\w+)\s*\((.*?)\)\s*(?:->\s*([^;]+))?;', body, re.S):
            attrs, name, params, ret = m.groups()
            ln = re.search(r'link_name\s*=\s*"([^"]+)"', attrs or "")
            ps = [p.split(":", 1)[1].strip() for p in split_top(params) if ":" in p]
            items.append({"kind": "fn", "file": os.path.relpath(f, repo), "rust_name": name, "symbol": ln.group(1) if ln else name,
                          "params": ps, "ret": (ret or "()").strip()})
        for m in re.finditer(r'((?:#\[[^\]]*\]\s*)*)pub(?:\([^)]*\))?\s+static\s+(?:mut\s+)?(\w+)\s*:\s*(\[[^\]]*\]|[^;]+);', body, re.S):
            attrs, name, ty = m.groups()
            ln = re.search(r'link_name\s*=\s*"([^"]+)"', attrs or "")
            items.append({"kind": "static", "file": os.path.relpath(f, repo), "rust_name": name, "symbol": ln.group(1) if ln else name, "ty": " ".join(ty.split())})

# ------------------------------------------------------------------ C side
c_files = [os.path.join(dep, x) for x in ("wrapper.c", "env.c", "jets_wrapper.c")]
c_files += sorted(glob.glob(os.path.join(dep, "simplicity", "*.c"))) + sorted(glob.glob(os.path.join(dep, "simplicity", "elements", "*.c")))
skip = ("test.c", "regression4.c", "typeSkipTest.c", "jets-secp256k1.c")  # the last one inlines the whole secp256k1 library (6 GB of AST); its jets are bound through the WRAP_ wrappers in jets_wrapper.c
c_files = [f for f in c_files if os.path.basename(f) not in skip]
wanted = {it["symbol"] for it in items}
cfun, cvar, typedefs = {}, {}, {}
errors = []

def has_kind(node, kinds):
    if isinstance(node, dict):
        if node.get("kind") in kinds:
            return node.get("kind")
        for v in node.values():
            r = has_kind(v, kinds)
            if r:
                return r
    elif isinstance(node, list):
        for v in node:
            r = has_kind(v, kinds)
            if r:
                return r
    return None

def scan(cf):
    """one translation unit -> (functions, variables, typedefs, errors), only for wanted symbols"""
    p = subprocess.run(["clang", "-Xclang", "-ast-dump=json", "-fsyntax-only", "-std=c11", "-DPRODUCTION", "-w",
                        "-I" + os.path.join(dep, "simplicity", "include"), "-I" + dep, cf], capture_output=True, text=True)
    if not p.stdout.strip():
        return {}, {}, {}, ["clang produced no AST for %s: %s" % (cf, p.stderr[:200])]
    try:
        ast = json.loads(p.stdout)
    except Exception as e:
        return {}, {}, {}, ["bad AST json for %s: %s" % (cf, e)]
    f, v, t = {}, {}, {}
    for d in ast.get("inner", []):
        k = d.get("kind")
        if k == "TypedefDecl":
            ty = d.get("type", {})
            tag = has_kind(d.get("inner", []), ("EnumType", "RecordType"))
            if tag == "EnumType":
                t[d["name"]] = "enum " + d["name"]
            elif tag == "RecordType" and "*" not in ty.get("qualType", "") and "(" not in ty.get("qualType", ""):
                t[d["name"]] = "struct " + d["name"]
            else:
                t[d["name"]] = ty.get("desugaredQualType", ty.get("qualType"))
        elif k == "FunctionDecl" and d.get("name") in wanted:
            ps = []
            is_def = False
            for q in d.get("inner", []):
                if q.get("kind") == "ParmVarDecl":
                    ty = q["type"]
                    ps.append(ty.get("desugaredQualType", ty["qualType"]))
                if q.get("kind") == "CompoundStmt":
                    is_def = True
            full = d["type"]["qualType"]
            ret = full[:full.index("(")].strip()
            cand = {"params": ps, "ret": ret, "file": os.path.relpath(cf, repo), "variadic": "..." in full, "definition": is_def}
            if d["name"] not in f or is_def:
                f[d["name"]] = cand
        elif k == "VarDecl" and d.get("name") in wanted:
            ty = d["type"]
            v.setdefault(d["name"], {"ty": ty.get("desugaredQualType", ty["qualType"]), "file": os.path.relpath(cf, repo)})
    return f, v, t, []

from concurrent.futures import ThreadPoolExecutor
with ThreadPoolExecutor(max_workers=16) as ex:
    for f, v, t, e in ex.map(scan, c_files):
        errors += e
        typedefs.update({k: x for k, x in t.items() if k not in typedefs})
        for k, c in f.items():
            if k not in cfun or (c["definition"] and not cfun[k]["definition"]):
                cfun[k] = c
        for k, c in v.items():
            cvar.setdefault(k, c)

def c_class(t, seen=0):
    t = " ".join(t.split())
    if seen > 10:
        return "unknown:" + t
    if "(*)" in t:
        return "fnptr"
    if t.endswith("*") or t.endswith("* const") or t.endswith("*restrict"):
        return "ptr"
    t = re.sub(r"\b(const|volatile|restrict)\b", "", t).strip()
    t = " ".join(t.split())
    m = re.match(r"(.+)\[(\d*)\]$", t)
    if m:
        return "array:%s:%s" % (c_class(m.group(1)), m.group(2))
    prim = {"_Bool": "bool", "bool": "bool", "char": "i8", "unsigned char": "i8", "signed char": "i8", "short": "i16", "unsigned short": "i16",
            "int": "i32", "unsigned int": "i32", "unsigned": "i32", "long": "i64", "unsigned long": "i64", "long long": "i64",
            "unsigned long long": "i64", "void": "void"}
    if t in prim:
        return prim[t]
    if t.startswith("enum "):
        return "i32"
    if t.startswith("struct ") or t.startswith("union "):
        return "struct"
    if t in typedefs and typedefs[t] and typedefs[t] != t:
        return c_class(typedefs[t], seen + 1)
    return "unknown:" + t

mismatches = []
for it in items:
    sym = it["symbol"]
    if it["kind"] == "fn":
        c = cfun.get(sym)
        if c is None:
            mismatches.append({"symbol": sym, "class": "ffi:no-c-prototype", "detail": "no C function %s found in the vendored sources" % sym, "file": it["file"]})
            continue
        it["c"] = c
        rp = [rust_class(p) for p in it["params"]]
        cp = [c_class(p) for p in c["params"]]
        it["rust_classes"], it["c_classes"] = rp, cp
        if len(rp) != len(cp) or c["variadic"]:
            mismatches.append({"symbol": sym, "class": "ffi:arity", "file": it["file"],
                               "detail": "Rust declares %d parameters (%s), the C function in %s has %d (%s)" % (len(rp), ", ".join(it["params"]), c["file"], len(cp), ", ".join(c["params"]))})
            continue
        for k, (a, b) in enumerate(zip(rp, cp)):
            if a != b:
                mismatches.append({"symbol": sym, "class": "ffi:param-type", "file": it["file"],
                                   "detail": "parameter %d: Rust `%s` (%s) vs C `%s` (%s)" % (k, it["params"][k], a, c["params"][k], b)})
        rr, cr = rust_class(it["ret"]), c_class(c["ret"])
        it["ret_classes"] = [rr, cr]
        if rr != cr:
            mismatches.append({"symbol": sym, "class": "ffi:return-type", "file": it["file"], "detail": "return: Rust `%s` (%s) vs C `%s` (%s)" % (it["ret"], rr, c["ret"], cr)})
    else:
        c = cvar.get(sym)
        if c is None:
            mismatches.append({"symbol": sym, "class": "ffi:no-c-variable", "detail": "no C variable %s found" % sym, "file": it["file"]})
            continue
        it["c"] = c
        rc, cc = rust_class(it["ty"]), c_class(c["ty"])
        it["classes"] = [rc, cc]
        # arrays: element class and (if C gives it) length
        if rc.startswith("array") and cc.startswith("array"):
            ra, ca = rc.split(":"), cc.split(":")
            if ra[1] != ca[1] or (ca[2] and ra[2] != ca[2]):
                mismatches.append({"symbol": sym, "class": "ffi:static-type", "file": it["file"], "detail": "Rust `%s` vs C `%s`" % (it["ty"], c["ty"])})
        elif rc != cc:
            mismatches.append({"symbol": sym, "class": "ffi:static-type", "file": it["file"], "detail": "Rust `%s` (%s) vs C `%s` (%s)" % (it["ty"], rc, c["ty"], cc)})

json.dump({"items": items, "mismatches": mismatches, "errors": errors, "c_files": len(c_files)}, sys.stdout)
